#!/bin/bash
# usage: confirm_seed.sh <PROP> <agent out dir>  -- re-run an agent's claims on a fresh scratch worktree (tests pass with the patch, demo fails with it and
# passes without), then keep the seed as /verif/seeded/<PROP>-agentN/ with the confirmation recorded in meta.json.
prop="$1"; out=$(realpath "$2")
[ -f "$out/patch.diff" ] && [ -f "$out/demo.py" ] && [ -f "$out/meta.json" ] || { echo "missing deliverables in $out"; exit 9; }
w=$(mktemp -d /tmp/pyvc_confirm.XXXXXX)
git -C /repo worktree add --detach "$w/wt" HEAD -q || exit 9
cd "$w/wt"
timeout 400 /venv/bin/python "$out/demo.py" "$w/wt" > "$w/demo_pristine.log" 2>&1; d0=$?
git apply "$out/patch.diff" || { echo "APPLY FAILED"; cd /; git -C /repo worktree remove --force "$w/wt"; rm -rf "$w"; exit 9; }
onlysrc=$(git status --short | grep -vc " src/")
for try in 1 2 3; do   # the integration tests pick random ports; retry when another run collided with one
  PYTHONPATH="$w/wt/src" timeout 900 /venv/bin/python -m pytest -q -p no:cacheprovider --timeout=900 > "$w/tests.log" 2>&1; t=$?
  [ "$t" = 0 ] && break
done
timeout 400 /venv/bin/python "$out/demo.py" "$w/wt" > "$w/demo_patched.log" 2>&1; d1=$?
echo "prop=$prop demo_pristine_exit=$d0 tests_exit=$t demo_patched_exit=$d1 non_src_files_touched=$onlysrc"
tail -2 "$w/tests.log"; tail -3 "$w/demo_patched.log"
cd /
if [ "$d0" = 0 ] && [ "$t" = 0 ] && [ "$d1" != 0 ] && [ "$d1" != 124 ]; then
  n=1; while [ -e "/verif/seeded/$prop-agent$n" ]; do n=$((n+1)); done
  dst="/verif/seeded/$prop-agent$n"; mkdir -p "$dst"
  cp "$out/patch.diff" "$out/demo.py" "$dst/"
  python3 - "$out/meta.json" "$dst/meta.json" "$d0" "$t" "$d1" "$(tail -1 $w/tests.log)" <<'PY'
import json, sys
src, dst, d0, t, d1, tl = sys.argv[1:7]
m = json.load(open(src))
m["round"] = 5
m["confirmed"] = dict(by="confirm_seed.sh on a fresh scratch worktree of /repo HEAD", demo_on_pristine_exit=int(d0), tests_with_patch_exit=int(t), tests_tail=tl.strip(), demo_with_patch_exit=int(d1))
json.dump(m, open(dst, "w"), indent=1)
PY
  echo "KEPT $dst"
else
  echo "NOT KEPT"
fi
git -C /repo worktree remove --force "$w/wt"; rm -rf "$w"
