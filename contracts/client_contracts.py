"""Contracts for pyrtma/client.py: subscription bookkeeping (C02), read path (C08), connecting (C06),
version stamping (C13).  Sidecar; /repo is not annotated."""
from pyvc.spec import Registry

ALL = 2147483647
C = "pyrtma.client:"


def install(R: Registry):
    R.declare_class("Client", bases=["ClientLike"], fields=dict(
        _module_id="Int", _host_id="Int", _msg_count="Int", _connected="Bool", _header_cls="Cls", _sub_all="Bool",
        _subscribed_types="Set[Int]", _paused_types="Set[Int]", _dynamic_id="Bool", _sock="CSocket", _name="Str",
        _logger="RTMALogger", _recv_buffer="Buffer"),
        ghost=dict(
            mgr_subs="Set[Int]",     # the subscription set the manager holds for this client once every frame sent so far is processed
            rx_pos="Int",            # number of bytes of the inbound stream consumed so far
        ))
    R.declare_class("CSocket", external=True, fields={}, ghost=dict(
        closed="Bool",
        tx_hdr="MessageHeader",      # the header object of the frame written last
        tx_n="Int",                  # number of sendall calls completed on this socket
    ))
    R.external("CSocket.sendall_hdr", params=dict(self="CSocket", data="MessageHeader"),
               requires=[("C08", "not self.closed")], modifies=["CSocket.tx_n", "CSocket.tx_hdr"],
               ensures=["self.tx_n == old(self.tx_n) + 1 and self.tx_hdr == data", "forall('s:CSocket', implies(s != self, s.tx_n == old(s.tx_n) and s.tx_hdr == old(s.tx_hdr)))"],
               raises={"ConnectionError": ["forall('s:CSocket', implies(s != self, s.tx_n == old(s.tx_n) and s.tx_hdr == old(s.tx_hdr)))"]})
    R.external("CSocket.sendall_body", params=dict(self="CSocket", data="Buffer"),
               requires=[("C08", "not self.closed")], modifies=["CSocket.tx_n"],
               ensures=["self.tx_n == old(self.tx_n) + 1", "forall('s:CSocket', implies(s != self, s.tx_n == old(s.tx_n)))"],
               raises={"ConnectionError": ["forall('s:CSocket', implies(s != self, s.tx_n == old(s.tx_n)))"]},
               doc="client side sendall: everything written, or ConnectionError")

    def csendall(eng, st, env, node):
        data = env["data"]
        which = "CSocket.sendall_hdr" if (data.t[0] == "ref" and eng.is_subclass(data.t[1], "MessageHeader")) else "CSocket.sendall_body"
        return eng.apply_contract(R.contracts[which], env["self"], [data], {}, st, node, None)
    R.external("CSocket.sendall", params=dict(self="CSocket", data="Buffer"), handler=csendall)
    R.contracts["CSocket.sendall"].untyped = {"data"}
    R.contract(C + "Client._sendall", tags="C02 C08", params=dict(buffer="Buffer"),
               requires=["self._sock != null and not self._sock.closed"],
               modifies=["CSocket.tx_n", "CSocket.tx_hdr", "Client._connected"],
               ensures=["self._connected == old(self._connected)", "self._sock.tx_n == old(self._sock.tx_n) + 1",
                        "implies(typeis(buffer, MessageHeader) or typeis(buffer, TimeCodeMessageHeader), self._sock.tx_hdr == buffer)",
                        "implies(not (typeis(buffer, MessageHeader) or typeis(buffer, TimeCodeMessageHeader)), self._sock.tx_hdr == old(self._sock.tx_hdr))",
                        "forall('c:Client', implies(c != self, c._connected == old(c._connected)))"],
               raises={"ConnectionLost": [("C08", "not self._connected", "loss of the connection leaves the client in the disconnected state"),
                                          "forall('c:Client', implies(c != self, c._connected == old(c._connected)))"]})
    R.contracts[C + "Client._sendall"].untyped = {"buffer"}
    if "RTMALogger" not in R.classes:
        R.declare_class("RTMALogger", external=True, fields={}, ghost={})
    R.ghost_global("_VALIDATION_ENABLED", "CtxVar[Bool]")

    # the manager's reaction to a control frame, as a function of its view of the client's subscription set
    # (these are exactly the postconditions of MessageManager.add_subscription / remove_subscription, C01)
    assert "add_step" in R.specfuncs and "remove_step" in R.specfuncs   # defined with the manager's handlers (same functions on both sides)
    R.define("cinv", "c: Client",
             f"forall('t:Int', not (c._subscribed_types[t] and c._paused_types[t])) and (c._sub_all == c._subscribed_types[{ALL}]) and "
             f"implies(c._sub_all, forall('t:Int', implies(c._subscribed_types[t], t == {ALL})) and forall('t:Int', not c._paused_types[t])) and not c._paused_types[{ALL}] and "
             "forall('t:Int', implies(c._subscribed_types[t] or c._paused_types[t], -2147483648 <= t and t <= 2147483647))",
             "client-side bookkeeping invariant: subscribed and paused are disjoint; subscribed-to-all means exactly {ALL} and nothing paused")
    R.define("agree", "c: Client", "c.mgr_subs == c._subscribed_types",
             "the set the client reports as subscribed is the set the manager will deliver to it")
    R.define("sub_type_c", "d: MessageData", "cast(d, MDF_SUBSCRIBE).msg_type")

    R.mark_inline(C + "Client.connected", C + "Client.subscribed_types", C + "Client.paused_subscribed_types", C + "Client.module_id",
                  C + "Client.name", C + "Client.logger", C + "Client.header_cls", C + "Client.msg_count", "pyrtma.header:MessageHeader.version")

    # ------------------------------------------------------------------ Client.send_message as seen by C02
    R.contract(C + "Client.send_message", tags="C02 C06 C13",
               params=dict(msg_data="MessageData", dest_mod_id="Int", dest_host_id="Int", timeout="Float"),
               requires=["msg_data != null", "self._sock != null", "not self._sock.closed"],
               modifies=["Client._msg_count", "Client._connected", "Client.mgr_subs", "glob:_VALIDATION_ENABLED",
                         "CSocket.tx_n", "CSocket.tx_hdr"],
               ghost_entry=["sent = False"],
               ghost_after={"Client._sendall": "sent = True"},
               ghost_exit=[
                   "if sent:\n"
                   "    if typeis(msg_data, MDF_SUBSCRIBE) or typeis(msg_data, MDF_RESUME_SUBSCRIPTION):\n"
                   "        self.mgr_subs = add_step(self.mgr_subs, sub_type_c(msg_data))\n"
                   "    elif typeis(msg_data, MDF_UNSUBSCRIBE) or typeis(msg_data, MDF_PAUSE_SUBSCRIPTION):\n"
                   "        self.mgr_subs = remove_step(self.mgr_subs, sub_type_c(msg_data))"],
               ensures=[
                   ("C02", "implies((timeout < 0) and (0 <= dest_mod_id and dest_mod_id <= 200 and 0 <= dest_host_id and dest_host_id <= 5), "
                           "implies(typeis(msg_data, MDF_SUBSCRIBE) or typeis(msg_data, MDF_RESUME_SUBSCRIPTION), self.mgr_subs == add_step(old(self.mgr_subs), sub_type_c(msg_data))) and "
                           "implies(typeis(msg_data, MDF_UNSUBSCRIBE) or typeis(msg_data, MDF_PAUSE_SUBSCRIPTION), self.mgr_subs == remove_step(old(self.mgr_subs), sub_type_c(msg_data))) and "
                           "implies(not (typeis(msg_data, MDF_SUBSCRIBE) or typeis(msg_data, MDF_RESUME_SUBSCRIPTION) or typeis(msg_data, MDF_UNSUBSCRIBE) or typeis(msg_data, MDF_PAUSE_SUBSCRIPTION)), self.mgr_subs == old(self.mgr_subs)))",
                    "a blocking send hands exactly one frame to the manager, which reacts as its subscription handlers specify"),
                   ("C02", "forall('c:Client', implies(c != self, c.mgr_subs == old(c.mgr_subs) and c._connected == old(c._connected) and c._msg_count == old(c._msg_count)))"),
                   ("C02", "self._connected and _VALIDATION_ENABLED == old(_VALIDATION_ENABLED)"),
                   ("C13", "implies(timeout < 0 and 0 <= msg_data.type_hash and msg_data.type_hash <= 4294967295, self._sock.tx_hdr != null and self._sock.tx_hdr.reserved == msg_data.type_hash)",
                    "senders place the message's version hash in the version field of every outgoing header"),
                   ("C01 C06", "implies(timeout < 0, self._sock.tx_hdr != null)"),
                   ("C01 C06", "implies(timeout < 0, self._sock.tx_hdr.msg_type == wrap_int(msg_data.type_id, 32))"),
                   ("C01 C06", "implies(timeout < 0, self._sock.tx_hdr.src_mod_id == wrap_int(old(self._module_id), 16))"),
                   ("C01 C06", "implies(timeout < 0, self._sock.tx_hdr.dest_mod_id == wrap_int(dest_mod_id, 16) and self._sock.tx_hdr.dest_host_id == wrap_int(dest_host_id, 16))"),
                   ("C01 C06", "implies(timeout < 0, self._sock.tx_hdr.num_data_bytes == wrap_int(sizeof_cls(dtype(msg_data)), 32))",
                    "type, source, destination and payload length are stamped as given"),
               ],
               raises={
                   "ConnectionLost": [("C08", "not self._connected"), "forall('c:Client', implies(c != self, c.mgr_subs == old(c.mgr_subs) and c._connected == old(c._connected)))"],
                   "NotConnectedError": ["not old(self._connected)", "self.mgr_subs == old(self.mgr_subs) and self._connected == old(self._connected) and self._msg_count == old(self._msg_count)"],
                   "InvalidDestinationModule": ["dest_mod_id < 0 or dest_mod_id > 200", "self.mgr_subs == old(self.mgr_subs) and self._connected == old(self._connected) and self._msg_count == old(self._msg_count)"],
                   "InvalidDestinationHost": ["dest_host_id < 0 or dest_host_id > 5", "self.mgr_subs == old(self.mgr_subs) and self._connected == old(self._connected) and self._msg_count == old(self._msg_count)"],
               },
               locals=dict(sent="Bool"))

    # ------------------------------------------------------------------ Client.send_signal: a bare type id, no payload, version 0 (C13: not a versioned send)
    _same = "self.mgr_subs == old(self.mgr_subs) and self._connected == old(self._connected) and self._msg_count == old(self._msg_count)"
    R.contract(C + "Client.send_signal", tags="C13 C06",
               params=dict(signal_type="Int", dest_mod_id="Int", dest_host_id="Int", timeout="Float"),
               requires=["self._sock != null", "not self._sock.closed",
                         "-2147483648 <= signal_type and signal_type <= 2147483647 and 0 <= self._msg_count and self._msg_count <= 2147483647",
                         "-32768 <= self._module_id and self._module_id <= 32767 and -32768 <= self._host_id and self._host_id <= 32767"],
               modifies=["Client._msg_count", "Client._connected", "CSocket.tx_n", "CSocket.tx_hdr"],
               ensures=[
                   ("C13", "implies(timeout < 0, self._sock.tx_hdr != null and self._sock.tx_hdr.reserved == 0 and self._sock.tx_hdr.num_data_bytes == 0)",
                    "a signal frame carries no payload and version 0 (the protocol's 'not filled in')"),
                   ("C06", "implies(timeout < 0, self._sock.tx_hdr.msg_type == wrap_int(signal_type, 32) and self._sock.tx_hdr.src_mod_id == wrap_int(old(self._module_id), 16))"),
                   "self._connected and self.mgr_subs == old(self.mgr_subs)",
                   "forall('c:Client', implies(c != self, c.mgr_subs == old(c.mgr_subs) and c._connected == old(c._connected) and c._msg_count == old(c._msg_count)))",
               ],
               raises={
                   "ConnectionLost": ["not self._connected", "forall('c:Client', implies(c != self, c.mgr_subs == old(c.mgr_subs) and c._connected == old(c._connected)))"],
                   "NotConnectedError": ["not old(self._connected)", _same],
                   "InvalidDestinationModule": ["dest_mod_id < 0 or dest_mod_id > 200", _same],
                   "InvalidDestinationHost": ["dest_host_id < 0 or dest_host_id > 5", _same],
               })

    # ------------------------------------------------------------------ _subscription_control (C02)
    SUBSCRIBE, UNSUB, PAUSE, RESUME = '"Subscribe"', '"Unsubscribe"', '"PauseSubscription"', '"ResumeSubscription"'
    R.define("inlist", "L: List[Int], t: Int", "exists('j:Int', 0 <= j and j < len(L) and L[j] == t)")
    R.contract(C + "Client._subscription_control", tags="C02",
               params=dict(msg_list="List[Int]", ctrl_msg="Str"),
               requires=["cinv(self)", "agree(self)", "self._connected", "self._sock != null and not self._sock.closed", "_VALIDATION_ENABLED",
                         ("C02", "forall('j:Int', implies(0 <= j and j < len(msg_list), -2147483648 <= msg_list[j] and msg_list[j] <= 2147483647))",
                          "message type ids are int32 values")],
               modifies=["Client._subscribed_types", "Client._paused_types", "Client._sub_all", "Client._msg_count", "Client._connected", "Client.mgr_subs",
                         "glob:_VALIDATION_ENABLED", "CSocket.tx_n", "CSocket.tx_hdr"],
               ensures=[
                   ("C02", "cinv(self) and agree(self)", "client and manager agree on the subscription set after the operation"),
                   ("C02", "forall('t:Int', implies(self._paused_types[t], not self.mgr_subs[t]))", "paused types are not delivered"),
                   ("C02", f"implies(ctrl_msg == {SUBSCRIBE} or ctrl_msg == {RESUME}, ite(inlist(msg_list, {ALL}), "
                           f"self._subscribed_types == setadd(empty('Int'), {ALL}) and self._paused_types == empty('Int') and self._sub_all, "
                           "forall('t:Int', self._subscribed_types[t] == (old(self._subscribed_types[t]) or inlist(msg_list, t))) and "
                           "forall('t:Int', self._paused_types[t] == (old(self._paused_types[t]) and not inlist(msg_list, t))) and self._sub_all == old(self._sub_all)))",
                    "subscribe / resume: the listed types become subscribed and stop being paused; with ALL in the list the client is subscribed to all types only"),
                   ("C02", f"implies(ctrl_msg == {UNSUB}, ite(inlist(msg_list, {ALL}), "
                           "self._subscribed_types == empty('Int') and self._paused_types == empty('Int') and not self._sub_all, "
                           "forall('t:Int', self._subscribed_types[t] == (old(self._subscribed_types[t]) and not inlist(msg_list, t))) and "
                           "forall('t:Int', self._paused_types[t] == (old(self._paused_types[t]) and not inlist(msg_list, t))) and self._sub_all == old(self._sub_all)))"),
                   ("C02", f"implies(ctrl_msg == {PAUSE}, ite(inlist(msg_list, {ALL}), "
                           "self._subscribed_types == empty('Int') and self._paused_types == empty('Int') and not self._sub_all, "
                           "forall('t:Int', self._subscribed_types[t] == (old(self._subscribed_types[t]) and not inlist(msg_list, t))) and "
                           "forall('t:Int', self._paused_types[t] == (old(self._paused_types[t]) or inlist(msg_list, t))) and self._sub_all == old(self._sub_all)))"),
                   ("C02", "self._connected and _VALIDATION_ENABLED and self.last_v2 == old(self.last_v2) and self.last_v1 == old(self.last_v1)"),
                   ("C02", "forall('c:Client', implies(c != self, c.mgr_subs == old(c.mgr_subs) and c._subscribed_types == old(c._subscribed_types) and c._paused_types == old(c._paused_types) and c._sub_all == old(c._sub_all)))"),
               ],
               raises={
                   "InvalidSubscription": [("C02", f"old(self._sub_all) and not inlist(msg_list, {ALL})", "individual changes while subscribed to all are refused"),
                                           ("C02", "self._subscribed_types == old(self._subscribed_types) and self._paused_types == old(self._paused_types) and self._sub_all == old(self._sub_all) and "
                                                   "self.mgr_subs == old(self.mgr_subs) and self._msg_count == old(self._msg_count)", "... and change nothing, at the client or at the manager")],
                   "TypeError": [f"not (ctrl_msg == {SUBSCRIBE} or ctrl_msg == {UNSUB} or ctrl_msg == {PAUSE} or ctrl_msg == {RESUME})"],
                   "ConnectionLost": ["not self._connected"],
               },
               loops={1: dict(invariant=[
                   "self._connected and _VALIDATION_ENABLED and self._sock != null and msg != null and self.last_v2 == old(self.last_v2) and self.last_v1 == old(self.last_v1)",
                   "self._subscribed_types == at_loop(self._subscribed_types) and self._paused_types == at_loop(self._paused_types) and self._sub_all == at_loop(self._sub_all)",
                   "forall('c:Client', implies(c != self, c.mgr_subs == old(c.mgr_subs) and c._subscribed_types == old(c._subscribed_types) and c._paused_types == old(c._paused_types) and c._sub_all == old(c._sub_all)))",
                   f"implies(ctrl_msg == {SUBSCRIBE} or ctrl_msg == {RESUME}, typeis(msg, MDF_SUBSCRIBE) or typeis(msg, MDF_RESUME_SUBSCRIPTION)) and "
                   f"implies(ctrl_msg == {UNSUB} or ctrl_msg == {PAUSE}, typeis(msg, MDF_UNSUBSCRIBE) or typeis(msg, MDF_PAUSE_SUBSCRIPTION))",
                   f"ctrl_msg == {SUBSCRIBE} or ctrl_msg == {RESUME} or ctrl_msg == {UNSUB} or ctrl_msg == {PAUSE}",
                   # the manager's view after the frames sent so far
                   f"implies(all_msg, self.mgr_subs == ite(done[{ALL}], ite(ctrl_msg == {SUBSCRIBE} or ctrl_msg == {RESUME}, setadd(empty('Int'), {ALL}), empty('Int')), old(self.mgr_subs)))",
                   f"implies(not all_msg and (ctrl_msg == {SUBSCRIBE} or ctrl_msg == {RESUME}), forall('t:Int', self.mgr_subs[t] == (old(self.mgr_subs[t]) or done[t])))",
                   f"implies(not all_msg and (ctrl_msg == {UNSUB} or ctrl_msg == {PAUSE}), forall('t:Int', self.mgr_subs[t] == (old(self.mgr_subs[t]) and not done[t])))",
                   f"all_msg == inlist(msg_list, {ALL}) and implies(not all_msg, not old(self._sub_all) and forall('t:Int', msg_set[t] == inlist(msg_list, t))) and "
                   f"implies(all_msg, msg_set == setadd(empty('Int'), {ALL}))",
               ])})


def install2(R: Registry):
    """public subscription API and the two context managers (C02)"""
    INT32 = ("C02", "forall('j:Int', implies(0 <= j and j < len(msg_list), -2147483648 <= msg_list[j] and msg_list[j] <= 2147483647))")
    PRE = ["cinv(self)", "agree(self)", "self._sock != null and not self._sock.closed", "_VALIDATION_ENABLED", INT32]
    MOD = ["Client._subscribed_types", "Client._paused_types", "Client._sub_all", "Client._msg_count", "Client._connected", "Client.mgr_subs",
           "glob:_VALIDATION_ENABLED", "CSocket.tx_n", "CSocket.tx_hdr"]
    OTHERS = ("C02", "forall('c:Client', implies(c != self, c.mgr_subs == old(c.mgr_subs) and c._subscribed_types == old(c._subscribed_types) and c._paused_types == old(c._paused_types) and c._sub_all == old(c._sub_all)))")
    KEEP = ("C02", "cinv(self) and agree(self) and self._connected and _VALIDATION_ENABLED and forall('t:Int', implies(self._paused_types[t], not self.mgr_subs[t])) and "
                   "self.last_v2 == old(self.last_v2) and self._name == old(self._name) and self._sock == old(self._sock)")
    UNCH = "self._subscribed_types == old(self._subscribed_types) and self._paused_types == old(self._paused_types) and self._sub_all == old(self._sub_all) and self.mgr_subs == old(self.mgr_subs)"
    RAISES = {
        "InvalidSubscription": [("C02", f"old(self._sub_all) and not inlist(msg_list, {ALL})"), ("C02", UNCH + " and self._msg_count == old(self._msg_count)")],
        "NotConnectedError": [("C02", "not old(self._connected)"), ("C02", UNCH)],
        "ConnectionLost": ["not self._connected"],
    }
    SUB_POST = (f"ite(inlist(msg_list, {ALL}), self._subscribed_types == setadd(empty('Int'), {ALL}) and self._paused_types == empty('Int') and self._sub_all, "
                "forall('t:Int', self._subscribed_types[t] == (old(self._subscribed_types[t]) or inlist(msg_list, t))) and "
                "forall('t:Int', self._paused_types[t] == (old(self._paused_types[t]) and not inlist(msg_list, t))) and self._sub_all == old(self._sub_all))")
    UNSUB_POST = (f"ite(inlist(msg_list, {ALL}), self._subscribed_types == empty('Int') and self._paused_types == empty('Int') and not self._sub_all, "
                  "forall('t:Int', self._subscribed_types[t] == (old(self._subscribed_types[t]) and not inlist(msg_list, t))) and "
                  "forall('t:Int', self._paused_types[t] == (old(self._paused_types[t]) and not inlist(msg_list, t))) and self._sub_all == old(self._sub_all))")
    PAUSE_POST = (f"ite(inlist(msg_list, {ALL}), self._subscribed_types == empty('Int') and self._paused_types == empty('Int') and not self._sub_all, "
                  "forall('t:Int', self._subscribed_types[t] == (old(self._subscribed_types[t]) and not inlist(msg_list, t))) and "
                  "forall('t:Int', self._paused_types[t] == (old(self._paused_types[t]) or inlist(msg_list, t))) and self._sub_all == old(self._sub_all))")
    for name, post in (("subscribe", SUB_POST), ("resume_subscription", SUB_POST), ("unsubscribe", UNSUB_POST), ("pause_subscription", PAUSE_POST)):
        R.contract(C + "Client." + name, tags="C02", params=dict(msg_list="List[Int]"),
                   requires=PRE, modifies=MOD, ensures=[KEEP, ("C02", post), OTHERS], raises=RAISES)

    # bulk variants: applied to the client's own current sets
    R.contract(C + "Client.unsubscribe_from_all", tags="C02", requires=PRE[:-1], modifies=MOD,
               ensures=[KEEP, ("C02", "self._subscribed_types == empty('Int') and not self._sub_all and self.mgr_subs == empty('Int')", "nothing is subscribed afterwards"),
                        ("C02", "implies(old(self._sub_all), self._paused_types == empty('Int')) and implies(not old(self._sub_all), self._paused_types == old(self._paused_types))"), OTHERS],
               raises={"NotConnectedError": RAISES["NotConnectedError"], "ConnectionLost": RAISES["ConnectionLost"]})
    R.contract(C + "Client.pause_all_subscriptions", tags="C02", requires=PRE[:-1], modifies=MOD,
               ensures=[KEEP, ("C02", "self._subscribed_types == empty('Int') and not self._sub_all and self.mgr_subs == empty('Int')"),
                        ("C02", "implies(not old(self._sub_all), forall('t:Int', self._paused_types[t] == (old(self._paused_types[t]) or old(self._subscribed_types[t]))))"), OTHERS],
               raises={"NotConnectedError": RAISES["NotConnectedError"], "ConnectionLost": RAISES["ConnectionLost"]})
    R.contract(C + "Client.resume_all_subscriptions", tags="C02", requires=PRE[:-1], modifies=MOD,
               ensures=[KEEP, ("C02", "implies(not old(self._sub_all), self._paused_types == empty('Int') and forall('t:Int', self._subscribed_types[t] == (old(self._subscribed_types[t]) or old(self._paused_types[t]))))"), OTHERS],
               raises={"NotConnectedError": RAISES["NotConnectedError"], "ConnectionLost": RAISES["ConnectionLost"],
                       "InvalidSubscription": [("C02", "old(self._sub_all)"), ("C02", UNCH)]})

    # ------------------------------------------------------------------ scoped contexts (generators, normal exit, effect-free body)
    CTX_PRE = PRE + [("C02", f"not inlist(msg_list, {ALL})", "entered with a list of individual types")]
    RESTORED = ("C02", "self._subscribed_types == old(self._subscribed_types) and self._paused_types == old(self._paused_types) and self._sub_all == old(self._sub_all)",
                "leaving the context restores exactly the subscribed and paused sets that held on entry")
    R.contract(C + "Client.subscription_context", tags="C02", params=dict(msg_list="List[Int]"),
               locals=dict(msg_list="List[Int]", requested="List[Int]", paused_list="List[Int]"),
               requires=CTX_PRE, modifies=MOD, ensures=[KEEP, RESTORED, OTHERS],
               raises={"InvalidSubscription": [("C02", "old(self._sub_all)"), ("C02", UNCH)], "NotConnectedError": [("C02", UNCH)], "ConnectionLost": ["not self._connected"]},
               loops={1: dict(invariant=[
                   "self._subscribed_types == old(self._subscribed_types) and self._paused_types == old(self._paused_types) and self._sub_all == old(self._sub_all) and self.mgr_subs == old(self.mgr_subs)",
                   "self._connected == old(self._connected) and _VALIDATION_ENABLED and self._msg_count == old(self._msg_count)",
                   "forall('c:Client', implies(c != self, c.mgr_subs == old(c.mgr_subs) and c._subscribed_types == old(c._subscribed_types) and c._paused_types == old(c._paused_types) and c._sub_all == old(c._sub_all)))",
                   "len(msg_list) >= 0 and forall('j:Int', implies(0 <= j and j < len(msg_list), not self._subscribed_types[msg_list[j]] and -2147483648 <= msg_list[j] and msg_list[j] <= 2147483647 and "
                   f"msg_list[j] != {ALL}))",
                   f"forall('j:Int', implies(0 <= j and j < len(requested), requested[j] != {ALL} and -2147483648 <= requested[j] and requested[j] <= 2147483647))",
               ])})
    R.contract(C + "Client.paused_subscription_context", tags="C02", params=dict(msg_list="List[Int]"),
               locals=dict(msg_list="List[Int]", requested="List[Int]"),
               requires=CTX_PRE, modifies=MOD, ensures=[KEEP, RESTORED, OTHERS],
               raises={"InvalidSubscription": [("C02", "old(self._sub_all)"), ("C02", UNCH)], "NotConnectedError": [("C02", UNCH)], "ConnectionLost": ["not self._connected"]},
               loops={1: dict(invariant=[
                   "self._subscribed_types == old(self._subscribed_types) and self._paused_types == old(self._paused_types) and self._sub_all == old(self._sub_all) and self.mgr_subs == old(self.mgr_subs)",
                   "self._connected == old(self._connected) and _VALIDATION_ENABLED and self._msg_count == old(self._msg_count)",
                   "forall('c:Client', implies(c != self, c.mgr_subs == old(c.mgr_subs) and c._subscribed_types == old(c._subscribed_types) and c._paused_types == old(c._paused_types) and c._sub_all == old(c._sub_all)))",
                   "len(msg_list) >= 0 and forall('j:Int', implies(0 <= j and j < len(msg_list), self._subscribed_types[msg_list[j]] and -2147483648 <= msg_list[j] and msg_list[j] <= 2147483647 and "
                   f"msg_list[j] != {ALL}))",
                   f"forall('j:Int', implies(0 <= j and j < len(requested), requested[j] != {ALL} and -2147483648 <= requested[j] and requested[j] <= 2147483647))",
               ])})


def install3(R: Registry):
    """read path (C08): frames on the inbound stream as ghost state of the client socket"""
    # inbound stream of the client socket: a sequence of well-formed frames, possibly cut by EOF anywhere
    sock = R.classes["CSocket"]
    from pyvc.core import parse_type
    sock.ghost.update(dict(
        rx_idx=parse_type("Int"),          # index of the frame the read cursor is in
        rx_off=parse_type("Int"),          # bytes of that frame already consumed (0: at a frame boundary)
        rx_eof=parse_type("Bool"),         # the peer closed; nothing more will arrive
        fr_hdr=parse_type("Map[Int, MessageHeader]"),   # header sent as frame i (field values as sent)
        fr_body=parse_type("Map[Int, Int]"),            # identity of the payload bytes of frame i
        hsize=parse_type("Int"),           # header size of the connection's layout (48 or 56)
    ))
    R.declare_class("MessageBase", fields={}, ghost=dict(content="Int"))      # identity of the bytes an object holds
    R.define("fr_len", "s: CSocket, i: Int", "s.fr_hdr[i].num_data_bytes")
    R.define("rx_wf", "s: CSocket",
             "s != null and (s.hsize == 48 or s.hsize == 56) and 0 <= s.rx_off and s.rx_idx >= 0 and "
             "forall('i:Int', s.fr_hdr[i] != null and allocated(s.fr_hdr[i]) and 0 <= fr_len(s, i) and fr_len(s, i) <= 1048576)",
             "every frame on the wire is well formed: a header followed by exactly num_data_bytes >= 0 payload bytes")
    HDR_EQ = ("h.msg_type == f.msg_type and h.msg_count == f.msg_count and h.send_time == f.send_time and h.src_host_id == f.src_host_id and "
              "h.src_mod_id == f.src_mod_id and h.dest_host_id == f.dest_host_id and h.dest_mod_id == f.dest_mod_id and h.num_data_bytes == f.num_data_bytes and "
              "h.remaining_bytes == f.remaining_bytes and h.is_dynamic == f.is_dynamic and h.reserved == f.reserved")
    R.define("hdr_same", "h: MessageHeader, f: MessageHeader", HDR_EQ,
             "all header fields as sent (recv_time is the receive timestamp the reader stamps, by definition of the field)")
    R.define("hdr_unchanged", "h: MessageHeader",
             "h.msg_type == old(h.msg_type) and h.msg_count == old(h.msg_count) and h.send_time == old(h.send_time) and h.recv_time == old(h.recv_time) and h.src_host_id == old(h.src_host_id) and "
             "h.src_mod_id == old(h.src_mod_id) and h.dest_host_id == old(h.dest_host_id) and h.dest_mod_id == old(h.dest_mod_id) and h.num_data_bytes == old(h.num_data_bytes) and "
             "h.remaining_bytes == old(h.remaining_bytes) and h.is_dynamic == old(h.is_dynamic) and h.reserved == old(h.reserved)")
    OTHER_S = "forall('s:CSocket', implies(s != self, s.rx_idx == old(s.rx_idx) and s.rx_off == old(s.rx_off) and s.rx_eof == old(s.rx_eof)))"
    RXMOD = ["CSocket.rx_idx", "CSocket.rx_off", "CSocket.rx_eof", "MessageBase.content", "MessageHeader.*"]
    # recv_into(obj, n): at a frame boundary with n == header size -> the header of the next frame;
    # inside a frame with n == remaining payload -> the payload.  k < n only at EOF.
    R.external("CSocket.recv_into", params=dict(self="CSocket", buf="MessageBase", n="Int", flags="Int"), returns="Int",
               requires=[("C08", "not self.closed"), ("C08", "0 <= n")],
               modifies=RXMOD,
               ensures=["0 <= result and result <= n", "implies(result < n, self.rx_eof)", OTHER_S, "self.rx_off >= 0 and self.rx_idx >= old(self.rx_idx)",
                        "forall('h:MessageHeader', implies(h != buf, hdr_unchanged(h)))", "forall('o:MessageBase', implies(o != buf, o.content == old(o.content)))",
                        "implies(result == n and old(self.rx_off) == 0 and n == self.hsize, hdr_same(cast(buf, MessageHeader), self.fr_hdr[old(self.rx_idx)]) and "
                        "ite(fr_len(self, old(self.rx_idx)) == 0, self.rx_idx == old(self.rx_idx) + 1 and self.rx_off == 0, self.rx_idx == old(self.rx_idx) and self.rx_off == self.hsize))",
                        "implies(result == n and old(self.rx_off) == self.hsize and n == fr_len(self, old(self.rx_idx)) and n > 0, buf.content == self.fr_body[old(self.rx_idx)] and self.rx_idx == old(self.rx_idx) + 1 and self.rx_off == 0)",
                        ],
               raises={"ConnectionError": [OTHER_S, "forall('h:MessageHeader', implies(h != buf, hdr_unchanged(h)))", "forall('o:MessageBase', implies(o != buf, o.content == old(o.content)))"]},
               doc="MSG_WAITALL read into an object: n bytes, fewer only if the peer closed, or ConnectionError")
    R.external("CSocket.recv", params=dict(self="CSocket", n="Int", flags="Int"), returns="Buffer",
               requires=[("C08", "not self.closed"), ("C08", "0 <= n", "recv() raises ValueError for a negative size")],
               modifies=["CSocket.rx_idx", "CSocket.rx_off", "CSocket.rx_eof"],
               ensures=[OTHER_S, "result != null", "self.rx_off >= 0 and self.rx_idx >= old(self.rx_idx)",
                        "implies(not self.rx_eof and old(self.rx_off) == self.hsize and n == fr_len(self, old(self.rx_idx)) and n > 0, self.rx_idx == old(self.rx_idx) + 1 and self.rx_off == 0)",
                        "implies(n == 0, self.rx_idx == old(self.rx_idx) and self.rx_off == old(self.rx_off) and self.rx_eof == old(self.rx_eof))"],
               raises={"ConnectionError": [OTHER_S]})
    R.contract(C + "Client._recv_discard", tags="C08", params=dict(nbytes="Int"), returns="Buffer",
               requires=["self._sock != null and not self._sock.closed", ("C08", "0 <= nbytes")],
               modifies=["CSocket.rx_idx", "CSocket.rx_off", "CSocket.rx_eof", "Client._connected"],
               ensures=["self._connected == old(self._connected)", "forall('c:Client', implies(c != self, c._connected == old(c._connected)))",
                        "self._sock.rx_off >= 0 and self._sock.rx_idx >= old(self._sock.rx_idx)",
                        "forall('s:CSocket', implies(s != self._sock, s.rx_idx == old(s.rx_idx) and s.rx_off == old(s.rx_off) and s.rx_eof == old(s.rx_eof)))",
                        "implies(not self._sock.rx_eof and old(self._sock.rx_off) == self._sock.hsize and nbytes == fr_len(self._sock, old(self._sock.rx_idx)) and nbytes > 0, self._sock.rx_idx == old(self._sock.rx_idx) + 1 and self._sock.rx_off == 0)",
                        "implies(nbytes == 0, self._sock.rx_idx == old(self._sock.rx_idx) and self._sock.rx_off == old(self._sock.rx_off) and self._sock.rx_eof == old(self._sock.rx_eof))"],
               raises={"ConnectionLost": [("C08", "not self._connected"), "forall('c:Client', implies(c != self, c._connected == old(c._connected)))",
                                          "forall('s:CSocket', implies(s != self._sock, s.rx_idx == old(s.rx_idx) and s.rx_off == old(s.rx_off) and s.rx_eof == old(s.rx_eof)))"]})

    # message class registry of the process (pyrtma.message._msg_defs)
    R.ghost_global("known_cls", "Map[Int, Int]")       # message type id -> class id, 0 when there is no definition
    def get_msg_cls_h(eng, st, env, node):
        import z3
        from pyvc.core import Val, Exc
        t = eng.coerce(env["id"], ("int",), node).z
        known = eng.global_val(st, "known_cls")
        cid = z3.Select(known.z, t)
        out = []
        for s2, has in eng.split(st, cid != 0):
            if has:
                # the class registered for t has that type id
                s2.assume(eng.classvar_fn("type_id")(cid) == t)
                out.append((s2, Val(("symcls",), cid, conc="MessageData")))
            else:
                out.append((s2, Exc("UnknownMessageType", "no definition", getattr(node, "lineno", 0))))
        return out
    R.external("pyrtma.message.get_msg_cls", params=dict(id="Int"), handler=get_msg_cls_h)
    R.contracts["get_msg_cls"] = R.contracts["pyrtma.message.get_msg_cls"]
    R.assume_text("get_msg_cls(t) returns the class registered for type id t (whose type_id is t) or raises UnknownMessageType")
    R.mark_inline("pyrtma.message_base:MessageBase.size")

    R.define("frame_done", "s: CSocket, i0: Int", "s.rx_eof or (s.rx_idx == i0 + 1 and s.rx_off == 0)",
             "the whole frame has been consumed: the next read starts on a frame boundary (or the peer has closed)")
    RD_REQ = ["self._sock != null and not self._sock.closed and rx_wf(self._sock) and self._sock.rx_off == 0", "self._sock.hsize == sizeof_cls(self._header_cls)",
              "self._header_cls == classid(MessageHeader) or self._header_cls == classid(TimeCodeMessageHeader)"]
    RD_MOD = RXMOD + ["Client._connected", "MessageData.*"]
    RD_FRAME = "forall('c:Client', implies(c != self, c._connected == old(c._connected))) and forall('s:CSocket', implies(s != self._sock, s.rx_idx == old(s.rx_idx) and s.rx_off == old(s.rx_off) and s.rx_eof == old(s.rx_eof)))"
    R.contract(C + "Client._read_message", tags="C08", returns="Message",
               params=dict(timeout="Float", ack="Bool", sync_check="Bool"),
               requires=RD_REQ, modifies=RD_MOD,
               ensures=[
                   ("C08", "implies(result != null, result.header != null and result.data != null and hdr_same(result.header, self._sock.fr_hdr[old(self._sock.rx_idx)]))",
                    "a returned message carries the header exactly as sent"),
                   ("C08", "implies(result != null and fr_len(self._sock, old(self._sock.rx_idx)) > 0, result.data.content == self._sock.fr_body[old(self._sock.rx_idx)])",
                    "... and the payload bytes exactly as sent"),
                   ("C08", "implies(result != null, self._sock.rx_idx == old(self._sock.rx_idx) + 1 and self._sock.rx_off == 0)", "exactly one frame is consumed"),
                   ("C08", "implies(result != null, known_cls[result.header.msg_type] != 0 and dtype(result.data) == known_cls[result.header.msg_type])"),
                   ("C08", "implies(result == null, self._sock.rx_idx == old(self._sock.rx_idx) and self._sock.rx_off == 0)", "a timeout consumes nothing"),
                   ("C08", "self._connected == old(self._connected)"), ("C08", RD_FRAME), ("C08", "rx_wf(self._sock)"),
                   ("C08", "implies(result != null, ite(result.data.type_size == -1, sizeof_cls(dtype(result.data)), result.data.type_size) == self._sock.fr_hdr[old(self._sock.rx_idx)].num_data_bytes)",
                    "a frame whose payload size differs from the local definition is never returned (the documented error is raised instead)"),
                   ("C08", "implies(result != null and sync_check and self._sock.fr_hdr[old(self._sock.rx_idx)].reserved != 0, self._sock.fr_hdr[old(self._sock.rx_idx)].reserved == result.data.type_hash)",
                    "with the sync check requested, a frame - with or without payload - whose non-zero version hash differs from the local one is never returned"),
               ],
               raises={
                   "UnknownMessageType": [("C08", "known_cls[self._sock.fr_hdr[old(self._sock.rx_idx)].msg_type] == 0", "raised exactly for a type without a local definition"),
                                          ("C08", "frame_done(self._sock, old(self._sock.rx_idx))", "the whole offending frame is consumed"),
                                          ("C08", "self._connected == old(self._connected) and rx_wf(self._sock)"), RD_FRAME],
                   "InvalidMessageDefinition": [("C08", "frame_done(self._sock, old(self._sock.rx_idx))", "the whole offending frame is consumed"),
                                                ("C08", "known_cls[self._sock.fr_hdr[old(self._sock.rx_idx)].msg_type] != 0"),
                                                ("C08", "self._connected == old(self._connected) and rx_wf(self._sock)"), RD_FRAME],
                   "ConnectionLost": [("C08", "not self._connected", "loss of the connection leaves the client in the disconnected state"), RD_FRAME],
                   "NotConnectedError": [("C08", "not old(self._connected)")],
               })


def install4(R: Registry):
    """read_message: the subscription filter (C08)"""
    RD_REQ = ["self._sock != null and not self._sock.closed and rx_wf(self._sock) and self._sock.rx_off == 0", "self._sock.hsize == sizeof_cls(self._header_cls)",
              "self._header_cls == classid(MessageHeader) or self._header_cls == classid(TimeCodeMessageHeader)"]
    RD_MOD = ["CSocket.rx_idx", "CSocket.rx_off", "CSocket.rx_eof", "MessageBase.content", "MessageHeader.*", "Client._connected", "MessageData.*"]
    RD_FRAME = "forall('c:Client', implies(c != self, c._connected == old(c._connected))) and forall('s:CSocket', implies(s != self._sock, s.rx_idx == old(s.rx_idx) and s.rx_off == old(s.rx_off) and s.rx_eof == old(s.rx_eof)))"
    R.define("from_frame", "m: Message, s: CSocket, i: Int",
             "m.header != null and m.data != null and hdr_same(m.header, s.fr_hdr[i]) and implies(fr_len(s, i) > 0, m.data.content == s.fr_body[i])",
             "the message is frame i of the inbound stream, byte for byte")
    R.contract(C + "Client.read_message", tags="C08", returns="Message",
               params=dict(timeout="Float", ack="Bool", sync_check="Bool"),
               requires=RD_REQ, modifies=RD_MOD,
               ensures=[
                   ("C08", "implies(result != null, self._sub_all or self._subscribed_types[result.header.msg_type] or (ack and result.header.msg_type == 2))",
                    "never returns a message of a type the client is not currently subscribed to (unless subscribed to all, or an ACK on request), even when it was already queued"),
                   ("C08", "implies(result != null, self._sock.rx_idx > old(self._sock.rx_idx) and from_frame(result, self._sock, self._sock.rx_idx - 1))",
                    "the returned message is the last frame consumed, unmodified"),
                   ("C08", "self._sock.rx_off == 0 and self._sock.rx_idx >= old(self._sock.rx_idx) and rx_wf(self._sock)", "the stream is left on a frame boundary"),
                   ("C08", "self._connected == old(self._connected)"), ("C08", RD_FRAME),
               ],
               raises={
                   "UnknownMessageType": [("C08", "self._sock.rx_eof or (self._sock.rx_off == 0 and self._sock.rx_idx > old(self._sock.rx_idx) and known_cls[self._sock.fr_hdr[self._sock.rx_idx - 1].msg_type] == 0)",
                                           "the offending frame is consumed entirely; the next call starts at the following frame"),
                                          ("C08", "self._connected == old(self._connected) and rx_wf(self._sock)"), RD_FRAME],
                   "InvalidMessageDefinition": [("C08", "self._sock.rx_eof or (self._sock.rx_off == 0 and self._sock.rx_idx > old(self._sock.rx_idx))"),
                                                ("C08", "self._connected == old(self._connected) and rx_wf(self._sock)"), RD_FRAME],
                   "ConnectionLost": [("C08", "not self._connected"), RD_FRAME],
                   "NotConnectedError": [("C08", "not old(self._connected)")],
               },
               loops={1: dict(invariant=[
                   "self._connected == old(self._connected) and self._connected and rx_wf(self._sock) and self._sock.rx_off == 0 and self._sock != null and not self._sock.closed",
                   "self._sock.rx_idx >= old(self._sock.rx_idx) and self._sock.hsize == sizeof_cls(self._header_cls) and not self._sub_all",
                   "self._header_cls == classid(MessageHeader) or self._header_cls == classid(TimeCodeMessageHeader)",
                   "implies(M != null, self._sock.rx_idx > old(self._sock.rx_idx) and from_frame(M, self._sock, self._sock.rx_idx - 1))",
                   RD_FRAME,
               ])})


def install5(R: Registry):
    """connecting (C06, client side): options are transmitted exactly as named, the dynamic id is adopted from the ACK"""
    from pyvc.core import parse_type
    cl = R.classes["Client"]
    cl.ghost["last_v2"] = parse_type("MDF_CONNECT_V2")     # payload of the CONNECT_V2 frame sent last
    cl.ghost["last_v1"] = parse_type("MDF_CONNECT")
    sm = R.contracts[C + "Client.send_message"]
    import ast
    sm.ghost_exit.append(ast.parse("if sent and typeis(msg_data, MDF_CONNECT_V2):\n    self.last_v2 = cast(msg_data, MDF_CONNECT_V2)\n"
                                   "if sent and typeis(msg_data, MDF_CONNECT):\n    self.last_v1 = cast(msg_data, MDF_CONNECT)").body)
    sm.modifies += ["Client.last_v2", "Client.last_v1"]
    from pyvc.spec import _clauses
    sm.ensures += _clauses([
        ("C06", "implies(timeout < 0 and typeis(msg_data, MDF_CONNECT_V2), self.last_v2 == msg_data)"),
        ("C06", "implies(timeout < 0 and typeis(msg_data, MDF_CONNECT), self.last_v1 == msg_data)"),
        ("C06", "implies(not typeis(msg_data, MDF_CONNECT_V2), self.last_v2 == old(self.last_v2))"),
        ("C06", "implies(not typeis(msg_data, MDF_CONNECT), self.last_v1 == old(self.last_v1))"),
        ("C06", "self._module_id == old(self._module_id) and self._name == old(self._name)"),
    ])
    for nm in ("subscribe", "unsubscribe", "pause_subscription", "resume_subscription", "_subscription_control", "unsubscribe_from_all",
               "pause_all_subscriptions", "resume_all_subscriptions", "subscription_context", "paused_subscription_context"):
        R.contracts[C + "Client." + nm].modifies += ["Client.last_v2", "Client.last_v1"]

    RD_REQ = ["self._sock != null and not self._sock.closed and rx_wf(self._sock) and self._sock.rx_off == 0", "self._sock.hsize == sizeof_cls(self._header_cls)",
              "self._header_cls == classid(MessageHeader) or self._header_cls == classid(TimeCodeMessageHeader)"]
    RD_MOD = ["CSocket.rx_idx", "CSocket.rx_off", "CSocket.rx_eof", "MessageBase.content", "MessageHeader.*", "Client._connected", "MessageData.*"]
    R.contract(C + "Client._wait_for_acknowledgement", tags="C06 C19", returns="Message", params=dict(timeout="Float"),
               requires=RD_REQ, modifies=RD_MOD,
               ensures=[("C06 C19", "result != null and result.header != null and result.header.msg_type == 2 and self._sock.rx_idx > old(self._sock.rx_idx) and from_frame(result, self._sock, self._sock.rx_idx - 1)",
                         "the message returned is an ACKNOWLEDGE frame taken from the inbound stream, unmodified"),
                        "self._connected == old(self._connected) and self._sock.rx_off == 0 and rx_wf(self._sock)"],
               raises={"AcknowledgementTimeout": [], "UnknownMessageType": [], "InvalidMessageDefinition": [], "ConnectionLost": ["not self._connected"], "NotConnectedError": []},
               loops={1: dict(invariant=["self._connected == old(self._connected) and rx_wf(self._sock) and self._sock.rx_off == 0 and self._sock != null and not self._sock.closed and self._sock.rx_idx >= old(self._sock.rx_idx)",
                                         "self._sock.hsize == sizeof_cls(self._header_cls) and (self._header_cls == classid(MessageHeader) or self._header_cls == classid(TimeCodeMessageHeader))"]),
                      2: dict(invariant=["self._connected == old(self._connected) and rx_wf(self._sock) and self._sock.rx_off == 0 and self._sock != null and not self._sock.closed and self._sock.rx_idx >= old(self._sock.rx_idx)",
                                         "self._sock.hsize == sizeof_cls(self._header_cls) and (self._header_cls == classid(MessageHeader) or self._header_cls == classid(TimeCodeMessageHeader))"])})

    B = lambda x: f"ite({x}, 1, 0)"
    R.define("v2_as_named", "c: Client, lg: Bool, dm: Bool, am: Bool, mid: Int",
             f"c.last_v2 != null and c.last_v2.logger_status == {B('lg')} and c.last_v2.daemon_status == {B('dm')} and c.last_v2.allow_multiple == {B('am')} and "
             "c.last_v2.mod_id == mid and c.last_v2.name == c._name",
             "the CONNECT_V2 frame carries logger / daemon / allow-multiple / id / name exactly as the caller named them")
    HELP_MOD = RD_MOD + ["Client._module_id", "Client._msg_count", "Client.mgr_subs", "Client._subscribed_types", "Client._paused_types", "Client._sub_all",
                         "Client.last_v2", "Client.last_v1", "CSocket.tx_n", "CSocket.tx_hdr", "glob:_VALIDATION_ENABLED"]
    R.external("RTMALogger.log_name.setter", params=dict(self="RTMALogger", value="Str"), pure=True, ensures=[])
    R.contract(C + "Client._connect_helper", tags="C06", returns="Message",
               params=dict(logger_status="Bool", daemon_status="Bool", allow_multiple="Bool"),
               requires=RD_REQ + ["self._connected", "_VALIDATION_ENABLED", "self._logger != null", "isascii(self._name) and len(self._name) <= 31",
                                  "0 <= self._module_id and self._module_id < 200", "implies(self._dynamic_id, True)"],
               modifies=HELP_MOD,
               ensures=[("C06", "v2_as_named(self, logger_status, daemon_status, allow_multiple, ite(old(self._dynamic_id), 0, old(self._module_id)))"),
                        ("C06", "self.last_v1 != null and self.last_v1.logger_status == ite(logger_status, 1, 0) and self.last_v1.daemon_status == ite(daemon_status, 1, 0)"),
                        ("C06", "result != null and result.header.msg_type == 2 and implies(old(self._dynamic_id) or old(self._module_id) == 0, self._module_id == result.header.dest_mod_id)",
                         "a client that asked for id 0 adopts the id named in the acknowledgement"),
                        ("C06", "implies(not old(self._dynamic_id) and old(self._module_id) != 0, self._module_id == old(self._module_id))"),
                        ("C02", "self._subscribed_types == empty('Int') and self._paused_types == empty('Int') and not self._sub_all and self.mgr_subs == old(self.mgr_subs)"),
                        ("C06", "self._connected and _VALIDATION_ENABLED and self._sock == old(self._sock) and not self._sock.closed and rx_wf(self._sock) and self._sock.rx_off == 0 and "
                                "self._name == old(self._name) and self._header_cls == old(self._header_cls) and self._sock.hsize == old(self._sock.hsize)")],
               raises={"AcknowledgementTimeout": [], "UnknownMessageType": [], "InvalidMessageDefinition": [], "ConnectionLost": [], "NotConnectedError": [],
                       "InvalidDestinationModule": [], "InvalidDestinationHost": []})


def install6(R: Registry):
    """Client.connect and client_context (C06): every public way of connecting passes the options on as named"""
    RD_MOD = ["CSocket.rx_idx", "CSocket.rx_off", "CSocket.rx_eof", "MessageBase.content", "MessageHeader.*", "Client._connected", "MessageData.*"]
    HELP_MOD = RD_MOD + ["Client._module_id", "Client._msg_count", "Client.mgr_subs", "Client._subscribed_types", "Client._paused_types", "Client._sub_all",
                         "Client.last_v2", "Client.last_v1", "CSocket.tx_n", "CSocket.tx_hdr", "glob:_VALIDATION_ENABLED", "Client._sock", "CSocket.closed"]
    SOCK_OK = ("self._sock != null and not self._sock.closed and rx_wf(self._sock) and self._sock.rx_off == 0 and self._sock.hsize == sizeof_cls(self._header_cls)")
    # --- trusted (not verified): socket set-up and tear-down, constructor
    R.external("Client._socket_connect", params=dict(self="Client", server_name="Str"),
               modifies=["Client._connected", "Client._sock", "CSocket.closed", "Client.mgr_subs"],
               ensures=["self._connected", SOCK_OK, "fresh(self._sock)", "self.mgr_subs == empty('Int')"],
               raises={"MessageManagerNotFound": ["not self._connected"], "SocketOptionError": ["not self._connected"], "ValueError": []},
               doc="opens a new TCP connection (assumed: a fresh open socket whose inbound stream is a sequence of well-formed frames)")
    R.external("CSocket.close", params=dict(self="CSocket"), modifies=["CSocket.closed"], ensures=["self.closed", "forall('s:CSocket', implies(s != self, s.closed == old(s.closed)))"],
               doc="socket.close(): the socket is closed (idempotent), no other socket is touched")
    R.contract(C + "Client.disconnect", tags="C02 C06 C08",
               requires=["self._sock != null", "implies(self._connected, not self._sock.closed)"],
               # type invariants of a constructed client, assumed on entry (listed as assumptions): fewer than 2^31 frames sent, int16 module / host ids
               assume_on_entry=["0 <= self._msg_count and self._msg_count <= 2147483647",
                                "-32768 <= self._module_id and self._module_id <= 32767 and -32768 <= self._host_id and self._host_id <= 32767"],
               modifies=["Client._connected", "Client._subscribed_types", "Client._paused_types", "Client._sub_all", "CSocket.closed", "Client._msg_count", "CSocket.tx_n", "CSocket.tx_hdr"],
               ensures=[("C02 C06 C08", "not self._connected and self._sock.closed", "after disconnect the client is in the disconnected state and its socket is closed - whatever the DISCONNECT send did"),
                        ("C02", "self._subscribed_types == empty('Int') and self._paused_types == empty('Int') and not self._sub_all",
                         "the client reports no subscription after it has left (the manager forgets a departed module's subscriptions: C07)"),
                        "forall('c:Client', implies(c != self, c._connected == old(c._connected)))"],
               doc="sends DISCONNECT if connected (any failure swallowed), closes the socket, resets the bookkeeping - verified from source")
    R.external("Client.__init__", params=dict(self="Client", module_id="Int", host_id="Int", timecode="Bool", name="Str"),
               modifies=["Client.*"],
               ensures=["self._module_id == module_id and self._host_id == host_id and not self._connected and self._dynamic_id == (module_id == 0) and 0 <= module_id and module_id < 100",
                        "implies(len(name) > 0, self._name == name)", "isascii(self._name) and len(self._name) <= 31",
                        "self._header_cls == ite(timecode, classid(TimeCodeMessageHeader), classid(MessageHeader))",
                        "self._subscribed_types == empty('Int') and self._paused_types == empty('Int') and not self._sub_all and self._logger != null and self._sock != null"],
               raises={"ValueError": ["module_id >= 100 or module_id < 0"]},
               doc="constructor (assumed; its body looks up a default name in the context and builds the logger). Names are assumed ASCII and shorter than 32.")
    R.contracts["Client.__init__"].defaults = {"module_id": 0, "host_id": 0, "timecode": False, "name": ""}

    R.contract(C + "Client.send_module_ready", tags="C06",
               requires=["self._sock != null and not self._sock.closed", "_VALIDATION_ENABLED"],
               modifies=["Client._msg_count", "Client._connected", "Client.mgr_subs", "glob:_VALIDATION_ENABLED", "CSocket.tx_n", "CSocket.tx_hdr", "Client.last_v2", "Client.last_v1"],
               ensures=[("C06", "self.last_v2 == old(self.last_v2) and self._module_id == old(self._module_id) and self._name == old(self._name) and self.mgr_subs == old(self.mgr_subs)"),
                        ("C06", "self._connected and _VALIDATION_ENABLED")],
               raises={"NotConnectedError": [], "ConnectionLost": []})
    R.contract(C + "Client.connect", tags="C06",
               params=dict(server_name="Str", logger_status="Bool", daemon_status="Bool", allow_multiple="Bool"),
               requires=["_VALIDATION_ENABLED", "self._logger != null", "isascii(self._name) and len(self._name) <= 31", "0 <= self._module_id and self._module_id < 200",
                         "self._header_cls == classid(MessageHeader) or self._header_cls == classid(TimeCodeMessageHeader)",
                         # the object invariants disconnect() needs when connect() is called on a client that is already connected
                         "self._sock != null and implies(self._connected, not self._sock.closed)"],
               modifies=HELP_MOD,
               ensures=[("C06", "v2_as_named(self, logger_status, daemon_status, allow_multiple, ite(old(self._dynamic_id), 0, old(self._module_id)))",
                         "Client.connect transmits its options exactly as named"),
                        ("C02", "cinv(self) and agree(self) and self._connected and _VALIDATION_ENABLED and " + SOCK_OK),
                        ("C06", "self._name == old(self._name) and self._header_cls == old(self._header_cls)")],
               raises={"AcknowledgementTimeout": [], "UnknownMessageType": [], "InvalidMessageDefinition": [], "ConnectionLost": [], "NotConnectedError": [],
                       "MessageManagerNotFound": [], "SocketOptionError": [], "ValueError": [], "InvalidDestinationModule": [], "InvalidDestinationHost": []})
    R.contract("pyrtma.client:client_context", tags="C06",
               params=dict(module_id="Int", server_name="Str", msg_list="List[Int]", host_id="Int", timecode="Bool", logger_status="Bool", allow_multiple="Bool", name="Str"),
               locals=dict(c="Client"),
               requires=["_VALIDATION_ENABLED", "0 <= module_id", ("C02", "forall('j:Int', implies(0 <= j and j < len(msg_list), -2147483648 <= msg_list[j] and msg_list[j] <= 2147483647))")],
               modifies=HELP_MOD + ["Client.*", "CSocket.*"],
               ensures=[("C06", "v2_as_named(c, logger_status, False, allow_multiple, module_id)", "client_context forwards its keyword options to connect() as named (daemon is not an option of client_context)"),
                        ("C06", "implies(len(name) > 0, c._name == name)")],
               raises={"AcknowledgementTimeout": [], "UnknownMessageType": [], "InvalidMessageDefinition": [], "ConnectionLost": [], "NotConnectedError": [],
                       "MessageManagerNotFound": [], "SocketOptionError": [], "ValueError": [], "InvalidDestinationModule": [], "InvalidDestinationHost": [], "InvalidSubscription": []})
