"""Contracts for pyrtma/data_logger (C17, hand-shake and buffer conservation).  Sidecar; /repo is not annotated.

Thread-modular scheme (DESIGN 11.9): the writer thread's guarantee is extracted from the real body of DataCollection.write
(pyvc/rgcheck.py) as a finite transition relation over the shared protocol state (WTD, WF, pc, dirty); its reflexive-transitive
closure `Wstar` is the *rely* of the recording thread and is applied (contract attribute `prelude`) before every shared access
the recording thread makes: Event operations and calls that touch the writer-side state of a data set.
"""
import os
from pyvc.spec import Registry
from pyvc import rgcheck

L = "pyrtma.data_logger.data_collection:"
D = "pyrtma.data_logger.data_set:"


def inv_session_text(n):
    # writer block <write pass; Event operation; Event operation>.  pc: 0 waiting, 1 woken / inside the write pass, 2 pass done (first operation pending),
    # 3 first operation done (second pending)
    return ("implies(p == 1 or p == 2, a and not b) and implies(a and b, p == 3) and implies(p == 2 or p == 3, a and not d) and implies(p == 3, b) and "
            "implies(not a, not d and p == 0) and implies(a and p == 0, d) and implies(p == 1, d) and 0 <= p and p <= 3")


def install(R: Registry):
    repo = os.environ.get("PYVC_REPO", "/repo")
    try:
        ops, _ = rgcheck.writer_ops(repo, "write")
    except rgcheck.Shape as ex:
        R.shape_error = str(ex)
        ops = [("data",), ("write_finished", "set"), ("write_to_disk", "clear")]
    R.writer_ops = ops
    wstar, wquiet, _ = rgcheck.closure_spec(ops)
    R.define("Wstar", "a0: Bool, b0: Bool, p0: Int, d0: Bool, a1: Bool, b1: Bool, p1: Int, d1: Bool", wstar,
             "reflexive-transitive closure of the writer thread's steps (extracted from DataCollection.write): the recorder's rely")
    R.define("Wquiet", "a: Bool, b: Bool, p: Int, d: Bool", wquiet,
             "from this state no sequence of writer steps enters the write pass (pc == 1): the writer does not touch the data sets now, nor before the recorder acts again")
    R.define("INVS", "a: Bool, b: Bool, p: Int, d: Bool", inv_session_text(len(ops)),
             "protocol invariant while recording: the writer is inside its pass only with write_to_disk set and write_finished clear; both flags set means the pass is over; "
             "write_to_disk clear means the writer is idle and nothing staged is unwritten")
    R.define("INVW", "a: Bool, b: Bool, p: Int, d: Bool", "implies(p == 1 or p == 2, a and not b) and implies(a and b, p == 3) and implies(p == 2 or p == 3, not d) and implies(not a, not d and p != 1 and p != 2) and 0 <= p and p <= 3",
             "weaker invariant that also holds after stop(): the writer may still owe its last Event operation")

    R.declare_class("Event", external=True, fields={}, ghost=dict(flag="Bool"))
    R.declare_class("Thread", external=True, fields={})
    R.declare_class("PyLogger", external=True, fields={})
    R.declare_class("Formatter", external=True, fields={}, ghost=dict(out="List[LMessage]"))   # messages handed to this formatter, in order
    R.declare_class("FileObj", external=True, fields={})
    R.declare_class("LMessage", external=True, fields={}, ghost=dict(tid="Int"))
    R.declare_class("DataSet", fields=dict(rbuf="List[LMessage]", wbuf="List[LMessage]", all_sub="Bool", msg_types="List[Int]", next_subdivide="Float",
                                           subdivide_interval="Float", subdivide_flag="Bool", collection_stopped="Bool", formatter="Formatter", fd="FileObj", sub_index="Int"),
                    ghost=dict(logged="Int",
                               acc="List[LMessage]",     # every message accepted for this data set (selected while recording and not paused), in arrival order
                               nl="Int",                 # how many of them have been handed to the formatter (in order: acc[0:nl])
                               stale="Bool"))            # the write buffer's content has already been handed to the formatter (after stop(): finalize does not empty it)
    R.declare_class("Metadata", external=True, fields={})
    R.declare_class("PathL", external=True, fields={})
    R.declare_class("DataCollection", fields=dict(metadata="Metadata", dir_fmt="Str", base_path="PathL", _paused="Bool", _recording="Bool", _close="Bool", use_thread="Bool", write_thread="Thread", datasets="List[DataSet]",
                                                  write_to_disk="Event", write_finished="Event", next_write="Float", logger="PyLogger", name="Str",
                                                  start_time="Float", ref_time="Float", _elapsed_time="Float", save_path="PathL"))
    R.ghost_global("pcW", "Int")
    R.ghost_global("dirty", "Bool")
    R.ghost_global("dc", "DataCollection")

    R.define("st_a", "c: DataCollection", "c.write_to_disk.flag")
    R.define("st_b", "c: DataCollection", "c.write_finished.flag")
    R.define("wfc", "c: DataCollection",
             "c != null and c.write_to_disk != null and c.write_finished != null and c.write_to_disk != c.write_finished and dc == c and "
             "forall('i:Int', implies(0 <= i and i < len(c.datasets), c.datasets[i] != null)) and "
             "forall('i:Int j:Int', implies(0 <= i and i < j and j < len(c.datasets), c.datasets[i] != c.datasets[j]))",
             "the collection's two events are distinct objects, its data sets are distinct objects")
    R.define("wdone", "s: DataSet", "s.stale or len(s.wbuf) == 0", "the write buffer holds nothing that still has to be written (empty, or already handed over by stop())")
    R.define("clean", "c: DataCollection", "implies(not dirty, forall('i:Int', implies(0 <= i and i < len(c.datasets), wdone(c.datasets[i])))) and "
                                           "implies(dirty, forall('i:Int', implies(0 <= i and i < len(c.datasets), not c.datasets[i].stale)))",
             "nothing staged and unwritten unless `dirty`; while something is staged no write buffer is stale")

    R.define("conserveV", "nl: Int, w: List[LMessage], r: List[LMessage], a: List[LMessage], stale: Bool",
             "nl >= 0 and len(w) >= 0 and len(r) >= 0 and len(a) == nl + ite(stale, 0, len(w)) + len(r) and "
             "implies(not stale, forall('j:Int', implies(0 <= j and j < len(w), w[j] == a[nl + j]))) and "
             "forall('j:Int', implies(0 <= j and j < len(r), r[j] == a[nl + ite(stale, 0, len(w)) + j]))",
             "the accepted sequence is: what was handed to the formatter (a[0:nl]), then the write buffer, then the read buffer - nothing lost, duplicated or reordered", opaque=True)
    R.define("conserve", "s: DataSet", "conserveV(s.nl, s.wbuf, s.rbuf, s.acc, s.stale)")
    R.define("conserve_all", "c: DataCollection", "forall('i:Int', implies(0 <= i and i < len(c.datasets), conserve(c.datasets[i])))")
    R.define("selects", "s: DataSet, m: LMessage", "m != null and (s.all_sub or exists('k:Int', 0 <= k and k < len(s.msg_types) and s.msg_types[k] == m.tid))",
             "the data set selects the message's type")
    R.define("appended", "new: List[LMessage], old_: List[LMessage], m: LMessage",
             "len(new) == len(old_) + 1 and new[len(old_)] == m and forall('j:Int', implies(0 <= j and j < len(old_), new[j] == old_[j]))")
    R.define("grown_by", "new: List[LMessage], old_: List[LMessage], b: List[LMessage]",
             "len(new) == len(old_) + len(b) and forall('j:Int', implies(0 <= j and j < len(old_), new[j] == old_[j])) and forall('j:Int', implies(0 <= j and j < len(b), new[len(old_) + j] == b[j]))")

    # ------------------------------------------------------------------ interference of the writer thread (the recorder's rely)
    R.external("rg_interfere", params={}, modifies=["Event.flag", "glob:pcW", "glob:dirty", "DataSet.wbuf", "DataSet.logged", "DataSet.subdivide_flag", "DataSet.sub_index", "DataSet.nl", "DataSet.formatter", "Formatter.out"],
               ensures=["Wstar(old(st_a(dc)), old(st_b(dc)), old(pcW), old(dirty), st_a(dc), st_b(dc), pcW, dirty)",
                        "forall('e:Event', implies(e != dc.write_to_disk and e != dc.write_finished, e.flag == old(e.flag)))",
                        # the write pass empties every write buffer (DataSet.write: formatter.write(wbuf); wbuf.clear()); outside it the buffers are not touched
                        "implies(old(dirty) and not dirty, forall('i:Int', implies(0 <= i and i < len(dc.datasets), len(dc.datasets[i].wbuf) == 0)))",
                        "implies(dirty == old(dirty), forall('s:DataSet', s.wbuf == old(s.wbuf) and s.nl == old(s.nl)))",
                        # effect of one write pass on every data set (the verified postcondition of DataSet.write): the staged messages are handed to the formatter
                        "implies(old(dirty) and not dirty, forall('i:Int', implies(0 <= i and i < len(dc.datasets), dc.datasets[i].nl == old(dc.datasets[i].nl) + old(len(dc.datasets[i].wbuf)))))",
                        "implies(not old(dirty), dirty == old(dirty))",
                        # from a quiet state the writer cannot enter a write pass: no data set, formatter or buffer is touched
                        "implies(old(Wquiet(st_a(dc), st_b(dc), pcW, dirty)), forall('s:DataSet', s.formatter == old(s.formatter) and s.wbuf == old(s.wbuf) and s.nl == old(s.nl)) and "
                        "forall('f:Formatter', f.out == old(f.out)))",
                        "forall('s:DataSet', s.rbuf == old(s.rbuf) and s.acc == old(s.acc) and s.stale == old(s.stale) and implies(old(s.formatter) != null, s.formatter != null))",
                        # DataSet.write (verified) preserves the conservation view of every data set it is applied to
                        "forall('s:DataSet', implies(old(conserve(s)) and not s.stale, conserve(s)))",
                        "implies(dirty == old(dirty), forall('s:DataSet', implies(old(conserve(s)), conserve(s))))"],
               doc="any number of steps of the writer thread, as extracted from DataCollection.write")

    # ------------------------------------------------------------------ threading.Event as used by the recording thread
    OTHER_EV = "forall('e:Event', implies(e != self, e.flag == old(e.flag)))"
    R.external("Event.is_set", params=dict(self="Event"), returns="Bool", prelude="rg_interfere", ensures=["result == self.flag"])
    R.external("Event.wait", params=dict(self="Event", timeout="Float"), returns="Bool", prelude="rg_interfere", ensures=["result == self.flag"],
               doc="returns the flag as it is when the call returns (True as soon as it is set, False after the timeout)")
    R.external("Event.set", params=dict(self="Event"), prelude="rg_interfere", modifies=["Event.flag"], ensures=["self.flag", OTHER_EV])
    R.external("Event.clear", params=dict(self="Event"), prelude="rg_interfere", modifies=["Event.flag"], ensures=["not self.flag", OTHER_EV])
    R.external("Thread.is_alive", params=dict(self="Thread"), returns="Bool", pure=True, ensures=[])
    for lvl in ("info", "debug", "warning", "error"):
        R.external("PyLogger." + lvl, params=dict(self="PyLogger", msg="Str"), pure=True, ensures=[])
    R.external("DataCollection.elapsed_time", params=dict(self="DataCollection"), returns="Float", pure=True, ensures=[]).is_property = True
    R.external("LMessage.type_id", params=dict(self="LMessage"), returns="Int", pure=True, ensures=["result == self.tid"]).is_property = True

    # ------------------------------------------------------------------ data-set accesses made by the recording thread
    QUIET = ("C17", "Wquiet(st_a(dc), st_b(dc), pcW, dirty)", "the recording thread touches a data set's write buffer / formatter / file only while the writer thread is outside its write pass and cannot enter it")
    INTERF_MOD = ["Event.flag", "glob:pcW", "glob:dirty", "DataSet.wbuf", "DataSet.logged", "DataSet.subdivide_flag", "DataSet.sub_index", "DataSet.nl", "DataSet.formatter", "Formatter.out"]
    OTHER_DS = "forall('s:DataSet', implies(s != self, s.wbuf == old(s.wbuf) and s.rbuf == old(s.rbuf) and s.acc == old(s.acc) and s.nl == old(s.nl) and s.formatter == old(s.formatter) and s.stale == old(s.stale)))"
    R.contract(D + "DataSet.stage_for_write", tags="C17", prelude="rg_interfere", reveal=["conserveV"],
               requires=[QUIET, ("C17", "wdone(self)", "the previously staged buffer has been written (or was handed over by stop()): staging over it loses nothing"), "conserve(self)"],
               modifies=["DataSet.rbuf", "DataSet.wbuf", "DataSet.stale", "glob:dirty"], ghost_exit=["dirty = True", "self.stale = False"],
               ensures=[("C17", "self.wbuf == old(self.rbuf) and len(self.rbuf) == 0 and not self.stale", "the recorded messages move to the write buffer, in order; recording continues in an empty buffer"),
                        ("C17", "conserve(self) and self.acc == old(self.acc) and self.nl == old(self.nl)", "nothing is lost, duplicated or reordered by staging"),
                        "dirty", OTHER_DS, "self.formatter == old(self.formatter) and forall('f:Formatter', f.out == old(f.out))"])
    # formatter: one record per message, in order (file formats themselves are not decided here)
    for fn in ("write", "finalize"):
        R.external("Formatter." + fn, params=dict(self="Formatter", wbuf="List[LMessage]"), modifies=["Formatter.out"],
                   ensures=["grown_by(self.out, old(self.out), wbuf)", "forall('f:Formatter', implies(f != self, f.out == old(f.out)))"],
                   doc="DataFormatter.write: fd.writelines(format_message(m) for m in wbuf) - one record per message, in list order; finalize = write + optional footer")
    R.external("DataSet.subdivide", params=dict(self="DataSet"), modifies=["DataSet.formatter", "DataSet.fd", "DataSet.sub_index", "Formatter.out"],
               requires=["len(self.wbuf) == 0"],
               ensures=["forall('f:Formatter', implies(f != self.formatter, f.out == old(f.out)))", "self.formatter != null and self.formatter != old(self.formatter)",
                        "forall('s:DataSet', implies(s != self, s.formatter == old(s.formatter)))"],
               doc="finalize(wbuf) with an empty wbuf, close the file, open the next one with a fresh formatter")
    R.contract(D + "DataSet.write", tags="C17", reveal=["conserveV"],
               requires=["conserve(self)", "self.formatter != null", ("C17", "not self.stale", "a write pass only follows a staging: a stale buffer is never written twice")],
               modifies=["DataSet.wbuf", "DataSet.nl", "DataSet.subdivide_flag", "DataSet.formatter", "DataSet.fd", "DataSet.sub_index", "Formatter.out"],
               ghost_after={"Formatter.write": "self.nl = self.nl + len(self.wbuf)"},
               ensures=[("C17", "let('f', old(self.formatter), grown_by(f.out, old(self.formatter.out), old(self.wbuf)))", "the formatter receives exactly the staged messages, once, in order"),
                        ("C17", "len(self.wbuf) == 0 and self.nl == old(self.nl) + old(len(self.wbuf)) and self.acc == old(self.acc) and self.rbuf == old(self.rbuf) and conserve(self)",
                         "the write buffer is emptied and the hand-over counter advances by its length: accepted == handed ++ write buffer ++ read buffer still holds")])
    R.contract(D + "DataSet.stop", tags="C17", prelude="rg_interfere", reveal=["conserveV"],
               requires=[QUIET, ("C17", "wdone(self)", "stop() stages the read buffer over the write buffer: it must have been written"), "conserve(self)", "self.formatter != null",
                         "not dirty", "dc != null and dc.write_to_disk != null and dc.write_finished != null and dc.write_to_disk != dc.write_finished"],
               modifies=["DataSet.rbuf", "DataSet.wbuf", "DataSet.nl", "DataSet.stale", "Formatter.out", "glob:dirty"] + INTERF_MOD,
               ghost_after={"Formatter.finalize": "self.nl = self.nl + len(self.wbuf)"}, ghost_exit=["dirty = False", "self.stale = True"],
               ensures=[("C17", "len(self.rbuf) == 0 and self.nl == len(self.acc) and self.acc == old(self.acc) and self.stale and conserve(self)", "after stop every accepted message has been handed to the formatter"),
                        ("C17", "grown_by(self.formatter.out, old(self.formatter.out), old(self.rbuf)) and self.formatter == old(self.formatter)", "... the remaining ones exactly once, in order"),
                        OTHER_DS, "not dirty and Wstar(old(st_a(dc)), old(st_b(dc)), old(pcW), False, st_a(dc), st_b(dc), pcW, False)",
                        "forall('e:Event', implies(e != dc.write_to_disk and e != dc.write_finished, e.flag == old(e.flag)))"])
    R.external("DataSet.close", params=dict(self="DataSet"), prelude="rg_interfere", requires=[QUIET], modifies=[], ensures=[])

    # ------------------------------------------------------------------ the recording thread
    SHARED_MOD = sorted(set(INTERF_MOD + ["DataSet.rbuf", "DataSet.acc", "DataSet.stale", "DataSet.next_subdivide", "DataSet.collection_stopped", "DataCollection.next_write", "DataCollection.start_time",
                                          "DataCollection.ref_time", "DataCollection._recording", "DataCollection._paused", "DataCollection._elapsed_time"]))
    INV_NOW = "INVS(st_a(self), st_b(self), pcW, dirty) and clean(self) and conserve_all(self)"
    FMT_OK = "forall('i:Int', implies(0 <= i and i < len(self.datasets), self.datasets[i].formatter != null))"
    R.contract(L + "DataCollection.trigger_write", tags="C17",
               requires=["wfc(self)", INV_NOW, "not st_a(self)", "self.use_thread"],
               modifies=SHARED_MOD, ghost_after={"Event.clear": "dirty = True"},      # a write pass is requested (even when there is no data set to stage)
               ensures=[("C17", "wfc(self) and " + INV_NOW, "the hand-shake invariant is re-established; nothing is lost, duplicated or reordered by staging"),
                        ("C17", "forall('s:DataSet', s.acc == old(s.acc) and s.nl == old(s.nl))")],
               loops={1: dict(invariant=[
                   "wfc(self) and not st_a(self) and pcW == 0 and st_a(self) == at_loop(st_a(self)) and conserve_all(self)",
                   "0 <= idx and forall('i:Int', implies(idx <= i and i < len(self.datasets), wdone(self.datasets[i]))) and forall('i:Int', implies(0 <= i and i < idx and i < len(self.datasets), not self.datasets[i].stale))",
                   "self.datasets == at_loop(self.datasets) and implies(idx > 0, dirty) and implies(idx == 0, not dirty)",
                   "forall('s:DataSet', s.acc == old(s.acc) and s.nl == old(s.nl))"])})
    ACTIVE = "not old(self._paused) and old(self._recording)"
    R.contract(L + "DataCollection.update", tags="C17", params=dict(msg="LMessage"), reveal=["conserveV"],
               requires=["wfc(self)", INV_NOW, "self.use_thread"],
               modifies=SHARED_MOD,
               ghost_after={"list.append": "ds.acc = ds.acc + [msg]"},
               ensures=[("C17", "wfc(self) and " + INV_NOW),
                        ("C17", f"implies({ACTIVE}, forall('i:Int', implies(0 <= i and i < len(self.datasets), "
                                "ite(selects(self.datasets[i], msg), appended(self.datasets[i].acc, old(self.datasets[i].acc), msg), self.datasets[i].acc == old(self.datasets[i].acc)))))",
                         "while recording and not paused, every message whose type a data set selects is accepted by that data set exactly once, after everything accepted before; nothing else is"),
                        ("C17", f"implies(not ({ACTIVE}), forall('s:DataSet', s.acc == old(s.acc) and s.rbuf == old(s.rbuf)))", "paused or stopped: nothing is recorded")],
               raises={"DataCollectionThreadError": []},
               loops={1: dict(invariant=["wfc(self)", INV_NOW, "self.datasets == at_loop(self.datasets) and 0 <= idx",
                                         "forall('i:Int', implies(0 <= i and i < idx and i < len(self.datasets), "
                                         "ite(selects(self.datasets[i], msg), appended(self.datasets[i].acc, old(self.datasets[i].acc), msg), self.datasets[i].acc == old(self.datasets[i].acc))))",
                                         "forall('i:Int', implies(idx <= i and i < len(self.datasets), self.datasets[i].acc == old(self.datasets[i].acc)))",
                                         "forall('i:Int', implies(0 <= i and i < len(self.datasets), self.datasets[i].msg_types == old(self.datasets[i].msg_types) and self.datasets[i].all_sub == old(self.datasets[i].all_sub)))"])})
    UNTOUCHED = "forall('s:DataSet', s.acc == old(s.acc) and s.rbuf == old(s.rbuf))"
    for fn in ("pause", "resume"):
        R.contract(L + "DataCollection." + fn, tags="C17",
                   requires=["wfc(self)", INV_NOW, "self.use_thread"], modifies=SHARED_MOD + ["DataCollection._elapsed_time"],
                   ensures=[("C17", "wfc(self) and " + INV_NOW, "pause / resume leave the hand-shake alone"), ("C17", UNTOUCHED, "pause / resume neither record nor drop anything"),
                            ("C17", "self._paused == %s and self._recording == old(self._recording)" % ("True" if fn == "pause" else "False"))])
    R.external("Metadata.expand_format", params=dict(self="Metadata", s="Str"), returns="Str", pure=True, ensures=[])
    R.external("PathL.joinpath", params=dict(self="PathL", other="Str"), returns="PathL", pure=True, ensures=["result != null"])
    R.external("PathL.mkdir", params=dict(self="PathL", parents="Bool", exist_ok="Bool"), pure=True, ensures=[])
    R.external("DataSet.start", params=dict(self="DataSet", base_path="PathL"), prelude="rg_interfere", requires=[QUIET],
               modifies=["DataSet.formatter", "DataSet.fd", "DataSet.sub_index", "DataSet.collection_stopped", "DataSet.subdivide_flag", "DataSet.next_subdivide", "Formatter.out"],
               ensures=["self.formatter != null", "forall('f:Formatter', implies(f != self.formatter, f.out == old(f.out)))",
                        "forall('s:DataSet', implies(s != self, s.formatter == old(s.formatter)))"],
               raises={"DataSetExistsError": []},
               doc="opens the data set's file and a fresh formatter (touches writer-side state: the writer must be quiet)")
    R.contract(L + "DataCollection.start", tags="C17",
               requires=["wfc(self)", "self.use_thread", "self.metadata != null and self.base_path != null",
                         ("C17", "INVW(st_a(self), st_b(self), pcW, dirty) and pcW == 0 and not st_a(self) and not st_b(self) and not dirty",
                          "ASSUMED at restart: the writer thread has completed the Event operations of its last pass (see DESIGN 11.9)"),
                         "conserve_all(self)", "forall('i:Int', implies(0 <= i and i < len(self.datasets), wdone(self.datasets[i])))"],
               modifies=SHARED_MOD + ["DataCollection.save_path", "DataSet.fd"],
               ensures=[("C17", "wfc(self) and " + INV_NOW, "a (re)started collection satisfies the recording invariant: stale write buffers of the previous session are never written again"),
                        ("C17", "self._recording and not self._paused and " + UNTOUCHED)],
               raises={"DataCollectionThreadError": [], "DataSetExistsError": []},
               loops={1: dict(invariant=["wfc(self) and INVS(st_a(self), st_b(self), pcW, dirty) and not st_a(self) and not dirty and conserve_all(self)",
                                         "forall('i:Int', implies(0 <= i and i < len(self.datasets), wdone(self.datasets[i])))",
                                         "self.datasets == at_loop(self.datasets) and " + UNTOUCHED])})
    R.contract(L + "DataCollection.stop", tags="C17",
               requires=["wfc(self)", INV_NOW, FMT_OK],
               modifies=SHARED_MOD,
               ensures=[("C17", "INVW(st_a(self), st_b(self), pcW, dirty) and not st_a(self) and not st_b(self)", "after stop() both flags are clear and the writer is outside its pass"),
                        ("C17", "forall('i:Int', implies(0 <= i and i < len(self.datasets), self.datasets[i].nl == len(self.datasets[i].acc) and self.datasets[i].acc == old(self.datasets[i].acc)))",
                         "after stop() every message accepted by a data set has been handed to its formatter (exactly once and in order: nl counts a prefix of acc)"),
                        ("C17", "wfc(self) and conserve_all(self) and not dirty and forall('i:Int', implies(0 <= i and i < len(self.datasets), wdone(self.datasets[i]) and len(self.datasets[i].rbuf) == 0))",
                         "the collection can be started again: nothing is pending")],
               loops={1: dict(invariant=["wfc(self) and INVS(st_a(self), st_b(self), pcW, dirty) and clean(self) and st_a(self) and conserve_all(self)", FMT_OK,
                                         "forall('s:DataSet', s.acc == old(s.acc))"]),
                      2: dict(invariant=["wfc(self) and not st_a(self) and not st_b(self) and INVW(st_a(self), st_b(self), pcW, dirty) and not dirty",
                                         "0 <= idx and self.datasets == at_loop(self.datasets)", FMT_OK, "forall('s:DataSet', s.acc == old(s.acc))",
                                         "forall('i:Int', implies(idx <= i and i < len(self.datasets), wdone(self.datasets[i]) and conserve(self.datasets[i])))",
                                         "forall('i:Int', implies(0 <= i and i < idx and i < len(self.datasets), self.datasets[i].nl == len(self.datasets[i].acc) and self.datasets[i].stale and "
                                         "conserve(self.datasets[i]) and len(self.datasets[i].rbuf) == 0))"])})


LOGGER_SIDECARS = ["contracts.logger_contracts"]
LOGGER_C17 = [L + "DataCollection.start", L + "DataCollection.trigger_write", L + "DataCollection.update", L + "DataCollection.stop", L + "DataCollection.pause", L + "DataCollection.resume", D + "DataSet.stage_for_write", D + "DataSet.write", D + "DataSet.stop"]
