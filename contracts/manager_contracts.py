"""Contracts for pyrtma/manager.py (sidecar; /repo is not annotated).

Tags on clauses name the properties they serve.  Top-level postconditions are transcribed from
the property statements; helper contracts, frames and loop invariants come from the code.
"""
from pyvc.spec import Registry

ALL = 2147483647
M = "pyrtma.manager:"
GUARD = "(8, 40, 41, 42, 43, 44, 45)"     # FAILED_MESSAGE and RTMA_LOG* (recursion guard of send_failed_message)


def install(R: Registry):
    R.ghost_global("seen_tr", "Map[Int, Int]")     # forward_message calls per type outside the statistics context since the last MESSAGE_TRAFFIC report
    R.ghost_global("seen_tm", "Map[Int, Int]")     # same, since the last TIMING_MESSAGE (only while timing is enabled)
    R.ghost_global("tr_n", "Int")                  # MESSAGE_TRAFFIC sub-messages emitted by the current send_traffic call
    R.ghost_global("tr_types", "Map[Int, CArray[Int, 64]]")    # msg_type array of the k-th sub-message as it was sent
    R.ghost_global("tr_counts", "Map[Int, CArray[Int, 64]]")   # msg_count array of the k-th sub-message as it was sent
    R.ghost_global("fwd_hdr", "Map[Int, MessageHeader]")     # header object given to delivery gid
    R.ghost_global("fwd_data", "Map[Int, Buffer]")           # payload object given to delivery gid
    # ================================================================== spec functions
    R.define("ismod", "mm: MessageManager, m: Module",
             "m != null and dom(mm.modules)[m.conn] and mm.modules[m.conn] == m",
             "m is an entry of the module table")
    R.define("I1w", "mm: MessageManager",
             "forall('m:Module t:Int', implies(mm.subscriptions[t][m], ismod(mm, m) and m.subs[t]))")
    R.define("I1s", "mm: MessageManager",
             "forall('m:Module t:Int', implies(ismod(mm, m) and m.subs[t] and not m.conn.closed, mm.subscriptions[t][m]))")
    R.define("I2", "mm: MessageManager",
             f"forall('m:Module t:Int', implies(ismod(mm, m) and m.subs[{ALL}] and m.subs[t], t == {ALL}))")
    R.define("I3", "mm: MessageManager",
             "forall('m:Module', implies(mm.logger_modules[m], ismod(mm, m) and m.is_logger and m.connected))")
    R.define("I4", "mm: MessageManager",
             "forall('c:Socket', implies(dom(mm.modules)[c], c != null and mm.modules[c] != null and mm.modules[c].conn == c))")
    R.define("I4c", "mm: MessageManager",
             "forall('m:Module t:Int', implies(mm.subscriptions[t][m], not m.conn.closed)) and "
             "forall('m:Module', implies(mm.logger_modules[m], not m.conn.closed))")
    R.define("I6x", "mm: MessageManager, x: Module",
             "forall('m:Module', implies(m != x and ismod(mm, m) and not m.conn.closed, m.conn.pending == 0 and m.conn.frames == m.msg_count and m.msg_count >= 0))",
             "every live connection is at a frame boundary and its frame counter equals the module's sequence number (x: a module whose send has just failed)")
    R.define("I6", "mm: MessageManager", "I6x(mm, null)")
    R.define("ghost_ok", "",
             "gid_next >= 1 and cur_gid < gid_next and cur_gid >= 0 and "
             "forall('g:Int m:Module', implies(g >= gid_next, delivered[g][m] == 0 and notice[g][m] == 0)) and "
             "forall('g:Int', implies(g >= gid_next, stray[g] == 0))")
    R.define("mm_ok", "mm: MessageManager",
             "ismod(mm, mm.mm_module) and mm._logger != null and mm._logger.owner == mm and mm.mm_module.conn == mm.listen_socket "
             "and not mm.listen_socket.closed and forall('t:Int', not mm.mm_module.subs[t]) and not mm.mm_module.is_logger "
             "and mm.mm_module.mod_id == 0")
    R.define("wf_core", "mm: MessageManager",
             "I1w(mm) and I1s(mm) and I2(mm) and I3(mm) and I4(mm) and I4c(mm) and ghost_ok() and mm_ok(mm)")
    R.define("wf_weak", "mm: MessageManager",
             "wf_core(mm) and I6(mm)",
             "invariant of the manager tables that holds at every call, including nested ones made while a module is being removed")
    R.define("wf", "mm: MessageManager", "wf_weak(mm)")
    R.define("all_open", "mm: MessageManager", "forall('m:Module', implies(ismod(mm, m), not m.conn.closed)) and forall('c:Socket', implies(dom(mm.modules)[c], not c.closed))",
             "between frames (at handler boundaries) no table entry is closed; only a module in the middle of its removal is")
    R.define("handle_ok", "mm: MessageManager, m: Module", "m != null and implies(dom(mm.modules)[m.conn], ismod(mm, m))",
             "a module handle is the table entry of its socket, or its socket is no longer in the table")
    R.define("mm_subs_same", "mm: MessageManager, m: Module, t: Int",
             "mm.subscriptions[t][m] == old(mm.subscriptions[t][m])")
    # the manager's reaction to a subscription control frame as a function on its view of the sender's set;
    # the client-side agreement proof (C02) uses the same two functions
    R.define("add_step", "S: Set[Int], t: Int", f"ite(t == {ALL}, setadd(empty('Int'), {ALL}), ite(S[{ALL}], S, setadd(S, t)))")
    R.define("remove_step", "S: Set[Int], t: Int", f"ite(t == {ALL}, empty('Int'), ite(S[{ALL}], S, setdel(S, t)))")
    R.define("sub_type_of", "msg: Message", "cast(msg.data, MDF_SUBSCRIBE).msg_type",
             "the int32 at offset 0 of the payload: msg_type of SUBSCRIBE/UNSUBSCRIBE/PAUSE/RESUME")

    # whole-state effect of anything that may run a nested broadcast (forward_message and all its callers)
    BCAST_MODIFIES = [
        "MessageManager.modules", "MessageManager.subscriptions", "MessageManager.logger_modules",
        "MessageManager.traffic_counter", "MessageManager.message_counts",
        "Module.msg_count", "Module.drops", "Module.connected", "MessageHeader.msg_count",
        "Socket.closed", "Socket.pending", "Socket.frames", "Socket.last_count",
        "glob:gid_next", "glob:delivered", "glob:stray", "glob:notice", "glob:closed_notices",
        "glob:cur_gid", "glob:cur_hdr", "glob:cur_data", "glob:fwd_hdr", "glob:fwd_data", "glob:seen_tr", "glob:seen_tm",
    ]
    R.define("table_shrinks", "mm: MessageManager",
             "forall('c:Socket', implies(dom(mm.modules)[c], old(dom(mm.modules)[c]) and mm.modules[c] == old(mm.modules[c])))")
    R.define("subs_shrink", "mm: MessageManager",
             "forall('m:Module t:Int', implies(mm.subscriptions[t][m], old(mm.subscriptions[t][m]))) and "
             "forall('m:Module t:Int', implies(ismod(mm, m) and not m.conn.closed, mm.subscriptions[t][m] == old(mm.subscriptions[t][m]))) and "
             "forall('m:Module', implies(mm.logger_modules[m], old(mm.logger_modules[m]))) and "
             "forall('m:Module', implies(ismod(mm, m) and not m.conn.closed, mm.logger_modules[m] == old(mm.logger_modules[m])))")
    R.define("departed", "mm: MessageManager",
             "forall('m:Module', implies(old(ismod(mm, m)) and not ismod(mm, m), m.conn.closed)) and "
             "forall('c:Socket', implies(old(c.closed), c.closed)) and "
             "forall('c:Socket', implies(not old(dom(mm.modules)[c]), c.closed == old(c.closed) and c.pending == old(c.pending) and c.frames == old(c.frames))) and "
             "forall('m:Module', implies(old(ismod(mm, m)) and not old(m.conn.closed) and m.conn.closed, not ismod(mm, m) and closed_notices[m] == old(closed_notices[m]) + 1)) and "
             "forall('m:Module', implies(not (old(ismod(mm, m)) and not old(m.conn.closed) and m.conn.closed), closed_notices[m] == old(closed_notices[m])))",
             "modules leave only by being closed; each departure publishes exactly one CLIENT_CLOSED")
    R.define("older_gids_untouched", "",
             "gid_next >= old(gid_next) and cur_gid == old(cur_gid) and cur_hdr == old(cur_hdr) and cur_data == old(cur_data) and "
             "forall('g:Int m:Module', implies(g < old(gid_next), delivered[g][m] == old(delivered[g][m]) and notice[g][m] == old(notice[g][m]))) and "
             "forall('g:Int', implies(g < old(gid_next), stray[g] == old(stray[g]) and fwd_hdr[g] == old(fwd_hdr[g]) and fwd_data[g] == old(fwd_data[g])))")
    R.define("counts_monotone", "mm: MessageManager",
             "forall('m:Module', m.msg_count >= old(m.msg_count)) and "
             "forall('u:Int', mm.traffic_counter[u] >= old(mm.traffic_counter[u]) and mm.message_counts[u] >= old(mm.message_counts[u])) and "
             "implies(old(mm.sending_traffic), mm.traffic_counter == old(mm.traffic_counter) and mm.message_counts == old(mm.message_counts)) and "
             "forall('m:Module', implies(m.connected, old(m.connected)))",
             "sequence numbers and traffic counters only grow; nothing is counted while the statistics themselves are being sent; no module becomes connected")
    R.define("counter_sync", "mm: MessageManager",
             "forall('u:Int', mm.traffic_counter[u] - seen_tr[u] == old(mm.traffic_counter[u] - seen_tr[u])) and "
             "forall('u:Int', mm.message_counts[u] - seen_tm[u] == old(mm.message_counts[u] - seen_tm[u])) and "
             "forall('u:Int', seen_tr[u] >= old(seen_tr[u]) and seen_tm[u] >= old(seen_tm[u])) and "
             "forall('u:Int', dom(mm.traffic_counter)[u] == (old(dom(mm.traffic_counter)[u]) or seen_tr[u] > old(seen_tr[u]))) and "
             "forall('u:Int', dom(mm.message_counts)[u] == (old(dom(mm.message_counts)[u]) or seen_tm[u] > old(seen_tm[u])))",
             "the traffic / timing counters advance by exactly the number of messages handled for forwarding outside the statistics context")
    BCAST_ENSURES = [
        ("C18", "counter_sync(self)"),
        ("C01 C03 C05 C07", "wf_weak(self)"),
        ("C01 C06 C07", "table_shrinks(self)"),
        ("C01 C07", "subs_shrink(self)"),
        ("C07", "departed(self)"),
        ("C01 C14", "older_gids_untouched()"),
        ("C05", "counts_monotone(self)"),
    ]
    R.BCAST_MODIFIES, R.BCAST_ENSURES = BCAST_MODIFIES, BCAST_ENSURES

    # ================================================================== environment (assumed, DESIGN §3)
    R.external("Socket.sendall_header", params=dict(self="Socket", data="MessageHeader"),
               requires=[("C03 C07", "not self.closed", "sendall on a locally closed socket raises OSError(EBADF), which nothing catches"),
                         ("C05", "self.pending == 0", "a header may only be written at a frame boundary"),
                         ("C05", "data.msg_count == self.frames + 1", "sequence numbers start at one and increase by one per frame")],
               modifies=["Socket.pending", "Socket.frames", "Socket.last_count"],
               ensures=["self.frames == old(self.frames) + 1", "self.pending == data.num_data_bytes", "self.last_count == data.msg_count",
                        "forall('s:Socket', implies(s != self, s.pending == old(s.pending) and s.frames == old(s.frames) and s.last_count == old(s.last_count)))"],
               raises={"ConnectionError": ["forall('s:Socket', implies(s != self, s.pending == old(s.pending) and s.frames == old(s.frames) and s.last_count == old(s.last_count)))"]},
               doc="sock.sendall(header): whole header written, or ConnectionError (peer gone) after a prefix")
    R.external("Socket.sendall_payload", params=dict(self="Socket", data="Buffer"),
               requires=[("C03 C07", "not self.closed"),
                         ("C05", "nbytes(data) == self.pending", "the payload written is exactly the declared number of bytes")],
               modifies=["Socket.pending"],
               ensures=["self.pending == 0", "forall('s:Socket', implies(s != self, s.pending == old(s.pending)))"],
               raises={"ConnectionError": ["forall('s:Socket', implies(s != self, s.pending == old(s.pending)))"]})

    def sendall(eng, st, env, node):
        data = env["data"]
        which = "Socket.sendall_header" if (data.t[0] == "ref" and eng.is_subclass(data.t[1], "MessageHeader")) else "Socket.sendall_payload"
        return eng.apply_contract(R.contracts[which], env["self"], [data], {}, st, node, None)
    R.external("Socket.sendall", params=dict(self="Socket", data="Buffer"), handler=sendall)
    R.contracts["Socket.sendall"].untyped = {"data"}      # argument keeps its static type (header vs payload)
    for _partial in ("send", "sendmsg"):
        R.external("Socket." + _partial, params=dict(self="Socket", data="Buffer"), returns="Int",
                   requires=[("C03 C07", "not self.closed")],
                   modifies=["Socket.pending", "Socket.frames", "Socket.last_count"],
                   ensures=["result >= 0",
                            "forall('s:Socket', implies(s != self, s.pending == old(s.pending) and s.frames == old(s.frames) and s.last_count == old(s.last_count)))"],
                   raises={"ConnectionError": ["forall('s:Socket', implies(s != self, s.pending == old(s.pending) and s.frames == old(s.frames) and s.last_count == old(s.last_count)))"]},
                   doc="sock.send / sock.sendmsg write a PREFIX of the data and return its length: the position of the stream inside the frame afterwards is unknown "
                       "unless the caller accounts for the result (frames/pending are left unconstrained)")
        R.contracts["Socket." + _partial].untyped = {"data"}
    R.external("Socket.shutdown", params=dict(self="Socket", how="Int"), requires=[("C03 C07", "not self.closed")], modifies=[],
               ensures=[], raises={"OSError": []},
               doc="sock.shutdown(how): raises OSError (ENOTCONN) when the peer has already reset the connection - exactly the case of a vanished client")
    R.external("Socket.close", params=dict(self="Socket"), modifies=["Socket.closed"],
               ensures=["self.closed", "forall('s:Socket', implies(s != self, s.closed == old(s.closed)))"])

    # ================================================================== Module
    R.mark_inline(M + "Module.close", M + "Module.sub_all", M + "Module.ipaddr", M + "Module.addr", M + "Module.port",
                  M + "MessageManager.logger", M + "MessageManager.pause_subscription", M + "MessageManager.resume_subscription",
                  M + "MessageManager.disconnect_module", M + "MessageManager.connected")
    R.contract(M + "Module.send_message", tags="C01 C05",
               params=dict(header="MessageHeader", payload="Buffer"),
               requires=[("C03 C07", "not self.conn.closed"),
                         ("C05", "self.conn.pending == 0 and self.conn.frames == self.msg_count and self.msg_count >= 0"),
                         ("C05", "nbytes(payload) == header.num_data_bytes")],
               modifies=["Module.msg_count", "MessageHeader.msg_count", "Socket.pending", "Socket.frames", "Socket.last_count",
                         "glob:delivered", "glob:stray"],
               ghost_exit=["if header == cur_hdr and payload == cur_data:\n"
                           "    delivered = store(delivered, cur_gid, store(delivered[cur_gid], self, delivered[cur_gid][self] + 1))\n"
                           "else:\n"
                           "    stray = store(stray, cur_gid, stray[cur_gid] + 1)"],
               ensures=[
                   ("C05", "self.msg_count == old(self.msg_count) + 1 and header.msg_count == self.msg_count"),
                   ("C05", "self.conn.pending == 0 and self.conn.frames == self.msg_count and self.conn.last_count == self.msg_count"),
                   ("C01 C05", "forall('m:Module', implies(m != self, m.msg_count == old(m.msg_count)))"),
                   ("C01", "forall('h:MessageHeader', implies(h != header, h.msg_count == old(h.msg_count)))"),
                   ("C05", "forall('s:Socket', implies(s != self.conn, s.pending == old(s.pending) and s.frames == old(s.frames) and s.last_count == old(s.last_count)))"),
                   ("C01", "implies(header == cur_hdr and payload == cur_data, delivered == old(store(delivered, cur_gid, store(delivered[cur_gid], self, delivered[cur_gid][self] + 1))) and stray == old(stray))"),
                   ("C01", "implies(not (header == cur_hdr and payload == cur_data), stray == old(store(stray, cur_gid, stray[cur_gid] + 1)) and delivered == old(delivered))"),
               ],
               raises={"ConnectionError": [
                   ("C01 C05", "forall('m:Module', implies(m != self, m.msg_count == old(m.msg_count)))"),
                   ("C05", "self.msg_count == old(self.msg_count) + 1"),
                   ("C01", "forall('h:MessageHeader', implies(h != header, h.msg_count == old(h.msg_count)))"),
                   ("C05", "forall('s:Socket', implies(s != self.conn, s.pending == old(s.pending) and s.frames == old(s.frames) and s.last_count == old(s.last_count)))"),
                   ("C01", "delivered == old(delivered) and stray == old(stray)"),
               ]})

    # ================================================================== subscription handlers (C01, C02, C19)
    sub_frame = [
        ("C01 C02", "forall('m:Module', implies(m != src_module, m.subs == old(m.subs)))"),
        ("C01 C02", "forall('m:Module t:Int', implies(m != src_module and ismod(self, m) and not m.conn.closed, mm_subs_same(self, m, t)))"),
    ]
    SUB_REQ = ["wf(self)", "names_ok(self) and validation_off()", "ismod(self, src_module)", "not src_module.conn.closed", "msg.data != null", "src_module != self.mm_module"]
    SUB_MOD = sorted(set(BCAST_MODIFIES + ["Module.subs"]))
    R.contract(M + "MessageManager.remove_subscription", tags="C01 C02",
               params=dict(src_module="Module", msg="Message"),
               requires=SUB_REQ, modifies=SUB_MOD,
               ensures=[
                   "wf(self)", "names_ok(self) and validation_off()", "stays_if_closed(self)", ("C18", "counter_sync(self)"),
                   "table_shrinks(self)", "departed(self)", "older_gids_untouched()", "counts_monotone(self)",
                   ("C02", "src_module.subs == remove_step(old(src_module.subs), sub_type_of(msg))", "UNSUBSCRIBE / PAUSE: exactly the step function the client-side proof assumes"),
                   f"implies(sub_type_of(msg) == {ALL}, src_module.subs == empty('Int'))",
                   f"implies(sub_type_of(msg) != {ALL} and old(src_module.subs)[{ALL}], src_module.subs == old(src_module.subs))",
                   f"implies(sub_type_of(msg) != {ALL} and not old(src_module.subs)[{ALL}], src_module.subs == setdel(old(src_module.subs), sub_type_of(msg)))",
               ] + sub_frame,
               loops={1: dict(invariant=[
                   "src_module.subs == old(src_module.subs)",
                   "self.modules == old(self.modules) and self.logger_modules == old(self.logger_modules)",
                   "forall('m:Module', m.subs == old(m.subs))",
                   "forall('m:Module t:Int', self.subscriptions[t][m] == (old(self.subscriptions[t][m]) and not (m == src_module and (done[t] or t == %d))))" % ALL,
               ])})
    R.contract(M + "MessageManager.add_subscription", tags="C01 C02",
               params=dict(src_module="Module", msg="Message"),
               requires=SUB_REQ, modifies=SUB_MOD,
               ensures=[
                   "wf(self)", "names_ok(self) and validation_off()", "stays_if_closed(self)", ("C18", "counter_sync(self)"),
                   "table_shrinks(self)", "departed(self)", "older_gids_untouched()", "counts_monotone(self)",
                   ("C02", "src_module.subs == add_step(old(src_module.subs), sub_type_of(msg))", "SUBSCRIBE / RESUME: exactly the step function the client-side proof assumes"),
                   f"implies(sub_type_of(msg) == {ALL}, src_module.subs == setadd(empty('Int'), {ALL}))",
                   f"implies(sub_type_of(msg) != {ALL} and old(src_module.subs)[{ALL}], src_module.subs == old(src_module.subs))",
                   f"implies(sub_type_of(msg) != {ALL} and not old(src_module.subs)[{ALL}], src_module.subs == setadd(old(src_module.subs), sub_type_of(msg)))",
               ] + sub_frame,
               loops={1: dict(invariant=[
                   "src_module.subs == old(src_module.subs)",
                   "self.modules == old(self.modules) and self.logger_modules == old(self.logger_modules)",
                   "forall('m:Module', m.subs == old(m.subs))",
                   "forall('m:Module t:Int', self.subscriptions[t][m] == (old(self.subscriptions[t][m]) and not (m == src_module and done[t])))",
               ])})


def install2(R: Registry):
    """second part: removal, broadcast, acknowledgement, connection, read/process/run, statistics"""
    BM, BE = R.BCAST_MODIFIES, R.BCAST_ENSURES
    R.define("validation_off", "", "not _VALIDATION_ENABLED")
    R.define("names_ok", "mm: MessageManager",
             "forall('m:Module', implies(ismod(mm, m), isascii(m.name) and len(m.name) <= 32))")
    R.define("stays_if_closed", "mm: MessageManager",
             "forall('m:Module', implies(old(ismod(mm, m)) and old(m.conn.closed), ismod(mm, m)))",
             "nested calls only remove live modules (a module in the middle of its own removal stays in the table)")
    R.define("wfw", "mm: MessageManager", "wf_weak(mm) and names_ok(mm) and validation_off()")
    BASE_REQ = [("C01 C03 C05 C06 C07 C14 C18 C19", "wfw(self)")]
    BASE_ENS = BE + [("C03", "names_ok(self) and validation_off()"), ("C07", "stays_if_closed(self)")]

    # ------------------------------------------------------------------ logging (derived from RTMALogHandler.emit)
    for lvl in ("debug", "info", "warning", "error", "critical", "exception"):
        R.external(f"RTMALogger.{lvl}", params=dict(self="RTMALogger", msg="Str"),
                   requires=[("C01 C03 C05 C06 C07 C14 C18 C19", "self.owner != null and wfw(self.owner)")],
                   modifies=BM,
                   ensures=[(t, c.replace("self", "self.owner")) for t, c in BASE_ENS],
                   doc="logging dispatch -> RTMALogHandler.emit -> owner.send_message(RTMA_LOG_*) with Exception swallowed; "
                       "emit itself is verified against this contract (client_logging contracts)")

    for prop, ret in (("addr", "Str"), ("ipaddr", "Str"), ("port", "Int")):
        c = R.external(f"Module.{prop}", params=dict(self="Module"), returns=ret, pure=True,
                       ensures=["isascii(result) and len(result) <= 31"] if ret == "Str" and prop == "addr" else [],
                       doc="peer address strings are ASCII and shorter than the 32-byte addr field (assumed)")
        c.is_property = True
    R.inline.discard(M + "Module.ipaddr"); R.inline.discard("Module.ipaddr")
    R.inline.discard(M + "Module.addr"); R.inline.discard("Module.addr")
    R.inline.discard(M + "Module.port"); R.inline.discard("Module.port")

    # ------------------------------------------------------------------ MessageManager.send_message
    R.contract(M + "MessageManager.send_message", tags="C01 C03 C05 C07 C14 C18",
               params=dict(msg_data="MessageData", dest_mod_id="Int", dest_host_id="Int", timeout="Float"),
               requires=BASE_REQ + [("C05", "msg_data != null and nbytes(msg_data) == msg_data.type_size and 0 <= msg_data.type_size and msg_data.type_size <= 65535 and 0 <= msg_data.type_id and msg_data.type_id <= 2147483647")],
               modifies=BM, ensures=BASE_ENS + [
                   ("C18", "implies(self.sending_traffic, self.traffic_counter == old(self.traffic_counter) and self.message_counts == old(self.message_counts))"),
                   ("C14 C18 C07", "gid_next > old(gid_next) and fwd_data[old(gid_next)] == msg_data and fwd_hdr[old(gid_next)] != null and "
                                   "fwd_hdr[old(gid_next)].msg_type == msg_data.type_id and fwd_hdr[old(gid_next)].src_mod_id == 0",
                    "the first delivery made is the given message, originated by the manager"),
               ])

    # ------------------------------------------------------------------ remove_module / send_client_close
    R.define("departed_x", "mm: MessageManager, x: Module",
             "forall('m:Module', implies(old(ismod(mm, m)) and not ismod(mm, m), m.conn.closed)) and "
             "forall('c:Socket', implies(old(c.closed), c.closed)) and "
             "forall('c:Socket', implies(not old(dom(mm.modules)[c]), c.closed == old(c.closed) and c.pending == old(c.pending) and c.frames == old(c.frames))) and "
             "forall('m:Module', implies(m != x and old(ismod(mm, m)) and not old(m.conn.closed) and m.conn.closed, not ismod(mm, m) and closed_notices[m] == old(closed_notices[m]) + 1)) and "
             "forall('m:Module', implies(m != x and not (old(ismod(mm, m)) and not old(m.conn.closed) and m.conn.closed), closed_notices[m] == old(closed_notices[m]))) and "
             "closed_notices[x] == old(closed_notices[x]) + 1")
    BE_X = [(t, c) if c != "departed(self)" else (t, "departed_x(self, module)") for t, c in BASE_ENS]
    R.contract(M + "MessageManager.send_client_close", tags="C07",
               params=dict(module="Module"),
               requires=BASE_REQ + ["ismod(self, module)", "module.conn.closed", "isascii(module.name) and len(module.name) <= 32"],
               modifies=BM,
               ghost_exit=["closed_notices = store(closed_notices, module, closed_notices[module] + 1)"],
               ensures=BE_X + [("C07", "ismod(self, module)")])
    R.contract(M + "MessageManager.send_client_info", tags="C03 C06",
               params=dict(module="Module"),
               requires=BASE_REQ + ["module != null and isascii(module.name) and len(module.name) <= 32"],
               modifies=BM, ensures=BASE_ENS)
    R.contract(M + "MessageManager.remove_module", tags="C07",
               params=dict(module="Module"),
               requires=[("C01 C03 C05 C06 C07 C14 C18 C19", "wf_core(self) and I6x(self, module) and names_ok(self) and validation_off()"),
                         ("C07", "handle_ok(self, module)"), "module != self.mm_module",
                         ("C07", "implies(ismod(self, module), not module.conn.closed)", "a module in the table is removed before it is closed, never twice")],
               modifies=BM,
               ensures=BASE_ENS + [
                   ("C07", "not ismod(self, module) and not dom(self.modules)[module.conn]"),
                   ("C07", "implies(old(ismod(self, module)), module.conn.closed)"),
                   ("C07", "forall('t:Int', not self.subscriptions[t][module]) and not self.logger_modules[module]"),
                   ("C07", "implies(old(ismod(self, module)), closed_notices[module] == old(closed_notices[module]) + 1)", "exactly one CLIENT_CLOSED per departure"),
                   ("C07", "implies(not old(ismod(self, module)), closed_notices == old(closed_notices) and self.modules == old(self.modules) and self.subscriptions == old(self.subscriptions) and gid_next == old(gid_next))",
                    "removing a module that is already gone does nothing"),
               ],
               loops={1: dict(invariant=[
                   "module.subs == old(module.subs) and self.modules == old(self.modules) and self.logger_modules == old(self.logger_modules)",
                   "forall('m:Module t:Int', self.subscriptions[t][m] == (old(self.subscriptions[t][m]) and not (m == module and done[t])))",
               ])})

    # ------------------------------------------------------------------ forward_message (C01 C05 C07 C14 C18)
    R.define("is_sub", "mm: MessageManager, m: Module, t: Int", f"mm.subscriptions[t][m] or mm.subscriptions[{ALL}][m]")
    R.define("elig", "m: Module, d: Int", "d == 0 or m.mod_id == d or m.is_logger",
             "destination filter, from the property text: everyone when the destination id is 0, otherwise the addressed module plus loggers")
    R.define("ready", "mm: MessageManager, m: Module", "m.conn in mm.wlist")
    R.define("bad_dest", "h: MessageHeader", "h.dest_mod_id < 0 or h.dest_mod_id > 200 or h.dest_host_id < 0 or h.dest_host_id > 5")
    R.define("in_guard", "t: Int", f"t in {GUARD}")
    FWD_GHOST_IN = ["if not self.sending_traffic:\n"
                    "    seen_tr = store(seen_tr, header.msg_type, seen_tr[header.msg_type] + 1)\n"
                    "    if self.b_send_msg_timing:\n"
                    "        seen_tm = store(seen_tm, header.msg_type, seen_tm[header.msg_type] + 1)",
                    "saved_gid = cur_gid\nsaved_hdr = cur_hdr\nsaved_data = cur_data\ngid = gid_next\n"
                    "gid_next = gid_next + 1\ncur_gid = gid\ncur_hdr = header\ncur_data = data\n"
                    "fwd_hdr = store(fwd_hdr, gid, header)\nfwd_data = store(fwd_data, gid, data)"]
    FWD_GHOST_OUT = ["cur_gid = saved_gid\ncur_hdr = saved_hdr\ncur_data = saved_data"]
    FWD_ENS = [c for c in BASE_ENS if c[1] != "older_gids_untouched()"] + [
        ("C01 C14", "gid == old(gid_next) and gid_next > gid and cur_gid == old(cur_gid) and cur_hdr == old(cur_hdr) and cur_data == old(cur_data)"),
        ("C01 C14", "forall('g:Int m:Module', implies(g < gid, delivered[g][m] == old(delivered[g][m]) and notice[g][m] == old(notice[g][m])))"),
        ("C01", "forall('g:Int', implies(g < gid, stray[g] == old(stray[g])))"),
        ("C14", "fwd_hdr[gid] == header and fwd_data[gid] == data and forall('g:Int', implies(g < gid, fwd_hdr[g] == old(fwd_hdr[g]) and fwd_data[g] == old(fwd_data[g])))"),
        # --- C01: exactly the right recipients, exactly once, unmodified
        ("C01", "implies(bad_dest(header), forall('m:Module', delivered[gid][m] == 0))",
         "a message whose destination module or host id is out of range is delivered to nobody"),
        ("C01", f"implies(header.msg_type != {ALL}, forall('m:Module', delivered[gid][m] <= 1))", "at most once"),
        ("C01", "forall('m:Module', implies(delivered[gid][m] >= 1, old(is_sub(self, m, header.msg_type)) and elig(m, header.dest_mod_id) and (old(ready(self, m)) or m.is_logger)))",
         "no other module receives it"),
        ("C01 C07", "implies(not bad_dest(header), forall('m:Module', implies(ismod(self, m) and not m.conn.closed and old(is_sub(self, m, header.msg_type)) and elig(m, header.dest_mod_id) and (old(ready(self, m)) or m.is_logger), delivered[gid][m] >= 1)))",
         "every subscribed, eligible, ready (or logger) module that is still connected afterwards received it - including when another recipient failed during this delivery"),
        ("C01", "stray[gid] == 0", "every frame written for this delivery is the given header object followed by the given payload object"),
        ("C01", "header.msg_type == old(header.msg_type) and header.src_mod_id == old(header.src_mod_id) and header.src_host_id == old(header.src_host_id) and "
                "header.dest_mod_id == old(header.dest_mod_id) and header.dest_host_id == old(header.dest_host_id) and header.num_data_bytes == old(header.num_data_bytes)",
         "type, source, destination and length fields of the header are not modified (only msg_count is stamped per connection)"),
        # --- C14: undeliverable -> FAILED_MESSAGE, never for guard types
        ("C14", "implies(in_guard(header.msg_type), forall('m:Module', notice[gid][m] == 0))",
         "a failure to deliver a failure notice or a log message never produces a further notice"),
        ("C14", "implies(not bad_dest(header) and not in_guard(header.msg_type), forall('m:Module', implies(old(is_sub(self, m, header.msg_type)) and elig(m, header.dest_mod_id) and not m.is_logger and not old(ready(self, m)) and ismod(self, m) and not m.conn.closed, notice[gid][m] >= 1)))",
         "an eligible subscriber that is not ready (and is still connected when the delivery ends) gets a FAILED_MESSAGE published for it"),
        # --- C18: counters (counter_sync is part of the common clauses)
        ("C18", "self.sending_traffic == old(self.sending_traffic)"),
    ]
    SUBL = "subscribers"
    inv = [
        "dest_mod_id == header.dest_mod_id and not bad_dest(header)",
        # ghost bookkeeping of this delivery
        "cur_gid == gid and cur_hdr == header and cur_data == data and gid_next > gid and gid == old(gid_next)",
        "forall('g:Int m:Module', implies(g < gid, delivered[g][m] == old(delivered[g][m]) and notice[g][m] == old(notice[g][m])))",
        "forall('g:Int', implies(g < gid, stray[g] == old(stray[g])))",
        "fwd_hdr[gid] == header and fwd_data[gid] == data and forall('g:Int', implies(g < gid, fwd_hdr[g] == old(fwd_hdr[g]) and fwd_data[g] == old(fwd_data[g])))",
        "stray[gid] == 0",
        f"implies(header.msg_type != {ALL}, forall('m:Module', delivered[gid][m] <= 1))",
        "forall('m:Module', delivered[gid][m] >= 0)",
        "forall('m:Module', implies(delivered[gid][m] >= 1, old(is_sub(self, m, header.msg_type)) and elig(m, header.dest_mod_id) and (old(ready(self, m)) or m.is_logger)))",
        "forall('j:Int', implies(0 <= j and j < idx and ismod(self, subscribers[j]) and not subscribers[j].conn.closed and elig(subscribers[j], header.dest_mod_id) and (old(ready(self, subscribers[j])) or subscribers[j].is_logger), delivered[gid][subscribers[j]] >= 1))",
        f"implies(header.msg_type != {ALL}, forall('j:Int', implies(idx <= j and j < len(subscribers), delivered[gid][subscribers[j]] == 0)))",
        "implies(in_guard(header.msg_type), forall('m:Module', notice[gid][m] == 0))",
        "forall('m:Module', notice[gid][m] >= 0)",
        "implies(not in_guard(header.msg_type), forall('j:Int', implies(0 <= j and j < idx and elig(subscribers[j], header.dest_mod_id) and not subscribers[j].is_logger and not old(ready(self, subscribers[j])) and ismod(self, subscribers[j]) and not subscribers[j].conn.closed, notice[gid][subscribers[j]] >= 1)))",
        # state
        "wfw(self) and table_shrinks(self) and subs_shrink(self) and departed(self) and stays_if_closed(self) and counts_monotone(self)",
        "self.wlist == old(self.wlist) and self.sending_traffic == old(self.sending_traffic)",
        "forall('m:Module', implies(old(is_sub(self, m, header.msg_type)) and ismod(self, m), not m.conn.closed))",
        "header.msg_type == old(header.msg_type) and header.src_mod_id == old(header.src_mod_id) and header.src_host_id == old(header.src_host_id) and "
        "header.dest_mod_id == old(header.dest_mod_id) and header.dest_host_id == old(header.dest_host_id) and header.num_data_bytes == old(header.num_data_bytes)",
        "counter_sync(self)",
    ]
    R.contract(M + "MessageManager.forward_message", tags="C01 C03 C05 C07 C14 C18",
               params=dict(src_module="Module", header="MessageHeader", data="Buffer"),
               locals=dict(saved_gid="Int", gid="Int"),
               requires=BASE_REQ + [("C05", "nbytes(data) == header.num_data_bytes"), "src_module != null",
                                    "isascii(src_module.name)"],
               modifies=BM,
               ghost_entry=FWD_GHOST_IN, ghost_exit=FWD_GHOST_OUT,
               ensures=FWD_ENS, loops={1: dict(invariant=inv)})


def install3(R: Registry):
    """third part: notices, loggers, acknowledgements, connection handling"""
    BM, BE = R.BCAST_MODIFIES, R.BCAST_ENSURES
    BASE_REQ = [("C01 C03 C05 C06 C07 C14 C18 C19", "wfw(self)")]
    BASE_ENS = BE + [("C03", "names_ok(self) and validation_off()"), ("C07", "stays_if_closed(self)")]
    R.BASE_REQ, R.BASE_ENS = BASE_REQ, BASE_ENS

    R.external("select.select", params=dict(r="List[Socket]", w="List[Socket]", x="List[Socket]", t="Float"),
               doc="blocking select on a logger's socket: returns (or blocks; liveness is out of scope)",
               ensures=[])
    R.contracts["select.select"].untyped = {"r", "w", "x", "t"}
    R.contracts["select.select"].defaults = {"t": None}

    # ------------------------------------------------------------------ send_failed_message (C14)
    R.define("failed_payload_ok", "g: Int, dest: Module, h: MessageHeader",
             "fwd_hdr[g] != null and fwd_hdr[g].msg_type == 8 and fwd_hdr[g].src_mod_id == 0 and fwd_hdr[g].dest_mod_id == 0 and "
             "cast(fwd_data[g], MDF_FAILED_MESSAGE).dest_mod_id == wrap_int(dest.mod_id, 16) and "
             "cast(fwd_data[g], MDF_FAILED_MESSAGE).msg_header.msg_type == h.msg_type and "
             "cast(fwd_data[g], MDF_FAILED_MESSAGE).msg_header.src_mod_id == h.src_mod_id and "
             "cast(fwd_data[g], MDF_FAILED_MESSAGE).msg_header.dest_mod_id == h.dest_mod_id",
             "the notice is a FAILED_MESSAGE broadcast by the manager that names the subscriber and carries the original type, source and destination")
    R.contract(M + "MessageManager.send_failed_message", tags="C14 C03",
               params=dict(dest_module="Module", header="MessageHeader", time_of_failure="Float"),
               requires=BASE_REQ + ["dest_module != null", "header != null"],
               modifies=BM + ["glob:notice"],
               ghost_exit=["if not in_guard(header.msg_type):\n"
                           "    notice = store(notice, cur_gid, store(notice[cur_gid], dest_module, notice[cur_gid][dest_module] + 1))"],
               ensures=[c for c in BASE_ENS if c[1] != "older_gids_untouched()"] + [
                   ("C14", "gid_next >= old(gid_next) and cur_gid == old(cur_gid) and cur_hdr == old(cur_hdr) and cur_data == old(cur_data)"),
                   ("C14", "forall('g:Int m:Module', implies(g < old(gid_next), delivered[g][m] == old(delivered[g][m])))"),
                   ("C14", "forall('g:Int', implies(g < old(gid_next), stray[g] == old(stray[g]) and fwd_hdr[g] == old(fwd_hdr[g]) and fwd_data[g] == old(fwd_data[g])))"),
                   ("C14", "forall('g:Int m:Module', implies(g < old(gid_next) and not (g == cur_gid and m == dest_module), notice[g][m] == old(notice[g][m])))"),
                   ("C14", "implies(in_guard(header.msg_type), notice == old(notice) and gid_next == old(gid_next))",
                    "no notice (and no broadcast at all) for FAILED_MESSAGE and RTMA_LOG* messages"),
                   ("C14", "implies(not in_guard(header.msg_type), notice[cur_gid][dest_module] == old(notice[cur_gid][dest_module]) + 1 and gid_next > old(gid_next) and failed_payload_ok(old(gid_next), dest_module, header))",
                    "otherwise exactly one FAILED_MESSAGE naming the subscriber and carrying the original header is forwarded (to every FAILED_MESSAGE subscriber, by forward_message's own contract)"),
               ])


def install4(R: Registry):
    """fourth part: loggers, acknowledgements, connection handling, read / process, statistics"""
    BM, BASE_REQ, BASE_ENS = R.BCAST_MODIFIES, R.BASE_REQ, R.BASE_ENS
    NOGID = [c for c in BASE_ENS if c[1] != "older_gids_untouched()"]
    R.define("top_gids_untouched", "",
             "gid_next >= old(gid_next) and cur_gid == old(cur_gid) and cur_hdr == old(cur_hdr) and cur_data == old(cur_data) and "
             "forall('g:Int m:Module', implies(1 <= g and g < old(gid_next), delivered[g][m] == old(delivered[g][m]) and notice[g][m] == old(notice[g][m]))) and "
             "forall('g:Int', implies(1 <= g and g < old(gid_next), stray[g] == old(stray[g]) and fwd_hdr[g] == old(fwd_hdr[g]) and fwd_data[g] == old(fwd_data[g])))",
             "sends made outside any delivery (acknowledgements) are attributed to gid 0")
    R.define("wf_top", "mm: MessageManager", "wfw(mm) and all_open(mm) and buffers_ok(mm) and cur_gid == 0",
             "the manager invariant between frames")
    TOP_REQ = [("C01 C03 C05 C06 C07 C14 C18 C19", "wf_top(self)")]
    TOP_ENS = NOGID + [("C01 C14", "top_gids_untouched()"), ("C03 C07", "all_open(self) and buffers_ok(self) and cur_gid == 0")]
    R.TOP_REQ, R.TOP_ENS, R.TOP_MOD = TOP_REQ, TOP_ENS, BM + ["glob:acks", "glob:ack_copies"]
    TOP_MOD = BM + ["glob:acks", "glob:ack_copies"]

    # ------------------------------------------------------------------ buffers of the manager
    R.define("buffers_ok", "mm: MessageManager",
             "mm.header_buffer != null and mm.header_buffer.role == 1 and mm.header_buffer.owner == mm and "
             "mm.header_view != null and mm.header_view.role == 1 and mm.header_view.owner == mm and "
             "mm.data_buffer != null and mm.data_buffer.role == 2 and mm.data_buffer.owner == mm and "
             "mm.data_view != null and mm.data_view.role == 2 and mm.data_view.owner == mm and "
             "nbytes(mm.data_buffer) == 1048576 and nbytes(mm.data_view) == 1048576 and nbytes(mm.header_buffer) == mm.header_size and "
             "(mm.header_size == 48 or mm.header_size == 56) and mm.hdr_obj != null and mm.data_obj != null and "
             "(mm.header_cls == classid(MessageHeader) or mm.header_cls == classid(TimeCodeMessageHeader)) and dtype(mm.hdr_obj) == mm.header_cls")
    R.external("Socket.recv_into", params=dict(self="Socket", buf="Buffer", n="Int", flags="Int"), returns="Int",
               requires=[("C03", "not self.closed", "recv on a closed socket raises OSError"),
                         ("C03 C05", "0 <= n and n <= nbytes(buf)", "recv_into raises ValueError for a negative size or one larger than the buffer")],
               modifies=["MessageManager.hdr_obj", "MessageManager.data_obj", "glob:rx_short"],
               ensures=["0 <= result and result <= n", "rx_short == (old(rx_short) or result < n)",
                        "implies(buf.role == 1, fresh(buf.owner.hdr_obj) and allocated(buf.owner.hdr_obj) and dtype(buf.owner.hdr_obj) == buf.owner.header_cls and buf.owner.data_obj == old(buf.owner.data_obj))",
                        "implies(buf.role != 1, fresh(buf.owner.data_obj) and allocated(buf.owner.data_obj) and buf.owner.hdr_obj == old(buf.owner.hdr_obj))",
                        "forall('mm:MessageManager', implies(mm != buf.owner, mm.hdr_obj == old(mm.hdr_obj) and mm.data_obj == old(mm.data_obj)))"],
               raises={"ConnectionError": [
                        "implies(buf.role == 1, fresh(buf.owner.hdr_obj) and allocated(buf.owner.hdr_obj) and dtype(buf.owner.hdr_obj) == buf.owner.header_cls and buf.owner.data_obj == old(buf.owner.data_obj))",
                        "implies(buf.role != 1, fresh(buf.owner.data_obj) and allocated(buf.owner.data_obj) and buf.owner.hdr_obj == old(buf.owner.hdr_obj))",
                        "forall('mm:MessageManager', implies(mm != buf.owner, mm.hdr_obj == old(mm.hdr_obj) and mm.data_obj == old(mm.data_obj)))"]},
               doc="MSG_WAITALL read: k <= n bytes (k < n only if the peer closed), or a ConnectionError; the buffer holds arbitrary bytes afterwards")

    # ------------------------------------------------------------------ send_to_loggers / send_ack (C19, C14)
    R.contract(M + "MessageManager.send_to_loggers", tags="C19 C14 C03",
               params=dict(header="MessageHeader", payload="Buffer"),
               requires=TOP_REQ + [("C05", "header != null and nbytes(payload) == header.num_data_bytes")],
               modifies=TOP_MOD,
               ghost_after={"Module.send_message": "ack_copies = store(ack_copies, module, ack_copies[module] + 1)"},
               ensures=TOP_ENS + [
                   ("C19", "acks == old(acks)"),
                   ("C19", "forall('m:Module', implies(self.logger_modules[m] and not m.conn.closed, ack_copies[m] == old(ack_copies[m]) + 1))",
                    "every logger module (still connected afterwards) received exactly one copy"),
                   ("C19", "forall('m:Module', implies(not old(self.logger_modules[m]), ack_copies[m] == old(ack_copies[m])))"),
                   ("C19", "forall('m:Module', ack_copies[m] <= old(ack_copies[m]) + 1 and ack_copies[m] >= old(ack_copies[m]))"),
                   ("C01", "header.msg_type == old(header.msg_type) and header.dest_mod_id == old(header.dest_mod_id) and header.num_data_bytes == old(header.num_data_bytes)"),
               ],
               loops={1: dict(invariant=[
                   "wf_top(self) and table_shrinks(self) and subs_shrink(self) and departed(self) and stays_if_closed(self) and counts_monotone(self) and top_gids_untouched() and counter_sync(self)",
                   "acks == old(acks) and self.wlist == old(self.wlist)",
                   "header.msg_type == old(header.msg_type) and header.dest_mod_id == old(header.dest_mod_id) and header.num_data_bytes == old(header.num_data_bytes)",
                   "forall('m:Module', implies(old(self.logger_modules[m]), implies(ismod(self, m) and not m.conn.closed and self.logger_modules[m], ack_copies[m] == old(ack_copies[m]) + ite(done[m], 1, 0))))",
                   "forall('m:Module', implies(not old(self.logger_modules[m]), ack_copies[m] == old(ack_copies[m])))",
                   "forall('m:Module', ack_copies[m] <= old(ack_copies[m]) + 1 and ack_copies[m] >= old(ack_copies[m]))",
                   "forall('m:Module', implies(not done[m], ack_copies[m] == old(ack_copies[m])))",
               ])})
    R.contract(M + "MessageManager.send_ack", tags="C19 C03 C05",
               params=dict(src_module="Module"),
               requires=TOP_REQ + ["handle_ok(self, src_module)", "src_module != self.mm_module"],
               modifies=TOP_MOD,
               ghost_after={"Module.send_message": "acks = store(acks, src_module, acks[src_module] + 1)"},
               ensures=TOP_ENS + [
                   ("C19", "forall('m:Module', implies(m != src_module, acks[m] == old(acks[m])))", "no other module is acknowledged"),
                   ("C19", "implies(old(ismod(self, src_module)) and ismod(self, src_module) and not src_module.conn.closed, acks[src_module] == old(acks[src_module]) + 1)",
                    "exactly one ACKNOWLEDGE on the requester's own connection"),
                   ("C19", "acks[src_module] <= old(acks[src_module]) + 1 and acks[src_module] >= old(acks[src_module])"),
                   ("C19", "implies(not old(ismod(self, src_module)), acks == old(acks) and ack_copies == old(ack_copies))"),
                   ("C19", "implies(old(ismod(self, src_module)), forall('m:Module', implies(self.logger_modules[m] and not m.conn.closed, ack_copies[m] == old(ack_copies[m]) + 1)))",
                    "each acknowledgement is also copied to every logger module"),
                   ("C19", "forall('m:Module', ack_copies[m] <= old(ack_copies[m]) + 1 and ack_copies[m] >= old(ack_copies[m]))"),
               ])


def install5(R: Registry):
    """fifth part: identity (C06), read / process (C01 C03 C05 C19)"""
    TOP_REQ, TOP_ENS, TOP_MOD = R.TOP_REQ, R.TOP_ENS, R.TOP_MOD
    R.mark_inline(M + "MessageManager.register_module_ready", M + "MessageManager.set_module_name", M + "MessageManager.header",
                  M + "MessageManager.message", M + "MessageManager.generate_uid", "pyrtma.message:Message.__init__")
    R.define("clash", "a: Module, b: Module",
             "(a.mod_id == b.mod_id and (a.unique or b.unique)) ",
             "two modules with the same id, at least one of which did not allow multiple instances")
    R.define("ids_ok", "mm: MessageManager",
             "forall('a:Module b:Module', implies(ismod(mm, a) and ismod(mm, b) and a != b and a.connected and b.connected and a.mod_id != 0, not clash(a, b))) and "
             "forall('a:Module', implies(ismod(mm, a), 0 <= a.mod_id and a.mod_id < 200)) and "
             "0 <= mm.next_dynamic_mod_id_offset and mm.next_dynamic_mod_id_offset < 100",
             "no two connected modules share an id unless both allow multiple instances; ids are in range")
    IDENT = ["Module.mod_id", "Module.unique", "Module.pid", "Module.name", "Module.is_logger", "Module.is_daemon", "Module.connected"]
    R.define("others_identity_same", "mm: MessageManager, x: Module",
             "forall('m:Module', implies(m != x, m.mod_id == old(m.mod_id) and m.unique == old(m.unique) and m.name == old(m.name) and "
             "m.pid == old(m.pid) and m.is_logger == old(m.is_logger) and m.is_daemon == old(m.is_daemon) and implies(m.connected, old(m.connected))))",
             "identity of every other module is untouched (an incumbent is never disturbed by another client's request)")

    R.contract(M + "MessageManager.assign_module_id", tags="C06 C03", returns="Int",
               requires=[("C01 C03 C05 C06 C07 C14 C18 C19", "wfw(self)"), "0 <= self.next_dynamic_mod_id_offset and self.next_dynamic_mod_id_offset < 100"],
               modifies=R.BCAST_MODIFIES + ["MessageManager.next_dynamic_mod_id_offset"],
               ensures=R.BASE_ENS + [
                   ("C06", "100 <= result and result < 200", "a dynamic id comes from the dynamic range"),
                   ("C06", "forall('m:Module', implies(old(ismod(self, m)), m.mod_id != result))", "that no module in the table holds"),
                   ("C06", "0 <= self.next_dynamic_mod_id_offset and self.next_dynamic_mod_id_offset < 100"),
                   ("C06", "self.modules == old(self.modules)"),
               ],
               raises={"RuntimeError": R.BASE_ENS + [
                   ("C06", "0 <= self.next_dynamic_mod_id_offset and self.next_dynamic_mod_id_offset < 100"),
               ]},
               loops={1: dict(invariant=[
                   "0 <= self.next_dynamic_mod_id_offset and self.next_dynamic_mod_id_offset < 100",
                   "self.modules == old(self.modules) and wfw(self)",
                   "forall('m:Module', m.mod_id == old(m.mod_id))",
               ])})

    R.define("bad_request", "mm: MessageManager, module: Module, data: MessageData, hdr: MessageHeader",
             "let('r', ite(typeis(data, MDF_CONNECT_V2), cast(data, MDF_CONNECT_V2).mod_id, hdr.src_mod_id), "
             "let('u', ite(typeis(data, MDF_CONNECT_V2), cast(data, MDF_CONNECT_V2).allow_multiple == 0, module.unique), "
             "r != 0 and (r < 1 or r > 100)))",
             "requests that must always be refused: an explicit id outside 1..100 (a clash with an incumbent is covered by the uniqueness clauses, "
             "stated over the table as it is when the decision is made - the incumbent may depart while the request is processed)")
    R.define("rid", "msg: Message", "ite(typeis(msg.data, MDF_CONNECT_V2), cast(msg.data, MDF_CONNECT_V2).mod_id, msg.header.src_mod_id)",
             "the module id a connection request asks for")
    R.define("subs_shrink_x", "mm: MessageManager, x: Module",
             "forall('m:Module t:Int', implies(mm.subscriptions[t][m], old(mm.subscriptions[t][m]))) and "
             "forall('m:Module t:Int', implies(ismod(mm, m) and not m.conn.closed, mm.subscriptions[t][m] == old(mm.subscriptions[t][m]))) and "
             "forall('m:Module', implies(mm.logger_modules[m] and m != x, old(mm.logger_modules[m]))) and "
             "forall('m:Module', implies(ismod(mm, m) and not m.conn.closed and m != x, mm.logger_modules[m] == old(mm.logger_modules[m])))")
    R.define("counts_monotone_x", "mm: MessageManager, x: Module",
             "forall('m:Module', m.msg_count >= old(m.msg_count)) and "
             "forall('u:Int', mm.traffic_counter[u] >= old(mm.traffic_counter[u]) and mm.message_counts[u] >= old(mm.message_counts[u])) and "
             "implies(old(mm.sending_traffic), mm.traffic_counter == old(mm.traffic_counter) and mm.message_counts == old(mm.message_counts)) and "
             "forall('m:Module', implies(m.connected and m != x, old(m.connected)))")
    CONN_ENS = [(t, c.replace("subs_shrink(self)", "subs_shrink_x(self, module)").replace("counts_monotone(self)", "counts_monotone_x(self, module)")) for t, c in TOP_ENS]
    R.contract(M + "MessageManager.connect_module", tags="C06 C03 C19", returns="Bool",
               params=dict(module="Module", msg="Message"),
               requires=TOP_REQ + [("C06", "ids_ok(self)"), "ismod(self, module)", "module != self.mm_module", "msg != null and msg.data != null and msg.header != null",
                                   "typeis(msg.data, MDF_CONNECT_V2) or typeis(msg.data, MDF_CONNECT)"],
               modifies=TOP_MOD + IDENT + ["MessageManager.next_dynamic_mod_id_offset"],
               ensures=CONN_ENS + [
                   ("C06", "ids_ok(self)"),
                   ("C06", "others_identity_same(self, module)"),
                   ("C06 C19", "implies(old(module.connected), not result and module.mod_id == old(module.mod_id) and module.unique == old(module.unique) and module.name == old(module.name) and module.connected and "
                               "self.modules == old(self.modules) and acks == old(acks) and ack_copies == old(ack_copies))",
                    "the CONNECT that follows an accepted CONNECT_V2 is ignored"),
                   ("C06", "implies(result, ismod(self, module) and module.connected and not old(module.connected))"),
                   ("C06", "implies(result and rid(msg) != 0, module.mod_id == rid(msg) and 1 <= rid(msg) and rid(msg) <= 100)", "an explicit id takes effect as named and lies in the user range"),
                   ("C06", "implies(result and rid(msg) == 0, 100 <= module.mod_id and module.mod_id < 200 and forall('m:Module', implies(ismod(self, m) and m != module, m.mod_id != module.mod_id)))",
                    "id 0: an id from the dynamic range that no live module holds"),
                   ("C06", "implies(result and typeis(msg.data, MDF_CONNECT_V2), module.unique == (cast(msg.data, MDF_CONNECT_V2).allow_multiple == 0) and module.pid == cast(msg.data, MDF_CONNECT_V2).pid and "
                           "module.name == cast(msg.data, MDF_CONNECT_V2).name and module.is_logger == (cast(msg.data, MDF_CONNECT_V2).logger_status == 1) and module.is_daemon == (cast(msg.data, MDF_CONNECT_V2).daemon_status == 1))",
                    "logger / daemon / allow-multiple / name / pid take effect exactly as named"),
                   ("C06", "implies(result and typeis(msg.data, MDF_CONNECT), module.is_logger == (cast(msg.data, MDF_CONNECT).logger_status == 1) and module.is_daemon == (cast(msg.data, MDF_CONNECT).daemon_status == 1) and module.unique == old(module.unique))"),
                   ("C06", "implies(result, forall('m:Module', implies(ismod(self, m) and m != module and module.mod_id < 100, not clash(m, module))))", "never two holders of a unique id"),
                   ("C06", "implies(result and rid(msg) != 0 and len(module.name) > 0, forall('m:Module', implies(ismod(self, m) and m != module, not ((m.unique or module.unique) and m.name == module.name))))",
                    "an explicit id with the name of a unique module is refused"),
                   ("C06 C07", "implies(not result and not old(module.connected), not ismod(self, module) and module.conn.closed)", "a refused request is closed"),
                   ("C19", "acks == old(acks) and ack_copies == old(ack_copies)"),
                   ("C06", "implies(result and module.is_logger, self.logger_modules[module])"),
                   ("C06", "implies(not old(module.connected) and old(bad_request(self, module, msg.data, msg.header)), not result)",
                    "a request that would break id uniqueness or names an id outside the user range is refused"),
               ],
               loops={1: dict(invariant=[
                   "wf_top(self) and table_shrinks(self) and subs_shrink(self) and departed(self) and stays_if_closed(self) and counts_monotone(self) and top_gids_untouched() and counter_sync(self)",
                   "ids_ok(self) and others_identity_same(self, module) and acks == old(acks) and ack_copies == old(ack_copies)",
                   "not old(module.connected) and not module.connected and module.mod_id == rid(msg) and module.mod_id != 0 and 1 <= module.mod_id and module.mod_id <= 100",
                   "implies(typeis(msg.data, MDF_CONNECT_V2), module.unique == (cast(msg.data, MDF_CONNECT_V2).allow_multiple == 0) and module.pid == cast(msg.data, MDF_CONNECT_V2).pid and "
                   "module.name == cast(msg.data, MDF_CONNECT_V2).name and isascii(module.name) and len(module.name) <= 32)",
                   "implies(typeis(msg.data, MDF_CONNECT), module.unique == old(module.unique) and module.name == old(module.name))",
                   "module.is_logger == (cast(msg.data, MDF_CONNECT).logger_status == 1) and module.is_daemon == (cast(msg.data, MDF_CONNECT).daemon_status == 1)",
                   "implies(ismod(self, module), not module.conn.closed)",
                   "forall('j:Int', implies(0 <= j and j < idx and seq[j] != module and ismod(self, seq[j]), not clash(seq[j], module) and "
                   "implies(len(module.name) > 0, not ((seq[j].unique or module.unique) and seq[j].name == module.name))))",
                   "forall('m:Module', implies(old(ismod(self, m)), exists('j:Int', 0 <= j and j < len(seq) and seq[j] == m)))",
                   "self.next_dynamic_mod_id_offset == old(self.next_dynamic_mod_id_offset)",
               ])})


def install6(R: Registry):
    """sixth part: read_message, process_message (C01 C03 C05 C19), statistics (C18)"""
    TOP_REQ, TOP_ENS, TOP_MOD = R.TOP_REQ, R.TOP_ENS, R.TOP_MOD
    IDENT = ["Module.mod_id", "Module.unique", "Module.pid", "Module.name", "Module.is_logger", "Module.is_daemon", "Module.connected"]
    RD_MOD = TOP_MOD + ["MessageManager.hdr_obj", "MessageManager.data_obj", "glob:rx_short"]
    R.contract(M + "MessageManager.read_message", tags="C03 C05 C07", returns="Bool",
               params=dict(sock="Socket"),
               requires=TOP_REQ + ["dom(self.modules)[sock]", "self.modules[sock] != self.mm_module"],
               modifies=RD_MOD, ghost_entry=["rx_short = False"],
               ensures=TOP_ENS + [
                   ("C07 C05 C01", "implies(result, not rx_short)", "a frame is accepted only if every read returned all the bytes asked for: a client that closes inside a frame is removed, its partial frame is never forwarded"),
                   ("C03 C05", "implies(result, 0 <= self.hdr_obj.num_data_bytes and self.hdr_obj.num_data_bytes <= 1048576)",
                    "a frame is only processed when its declared payload length fits the receive buffer"),
                   ("C03", "implies(result, self.modules == old(self.modules) and self.subscriptions == old(self.subscriptions) and self.logger_modules == old(self.logger_modules) and "
                           "acks == old(acks) and ack_copies == old(ack_copies) and gid_next == old(gid_next) and forall('m:Module', m.msg_count == old(m.msg_count)))",
                    "reading a frame changes nothing but the receive buffers"),
                   ("C07", "implies(not result, not dom(self.modules)[sock])", "a short read (peer closed inside a frame) or an invalid length drops that client"),
                   ("C19", "acks == old(acks) and ack_copies == old(ack_copies)"),
               ],
               raises={"ConnectionError": [
                   ("C03", "wf_top(self) and self.modules == old(self.modules) and self.subscriptions == old(self.subscriptions) and self.logger_modules == old(self.logger_modules)"),
                   ("C03", "acks == old(acks) and ack_copies == old(ack_copies) and gid_next == old(gid_next) and delivered == old(delivered) and notice == old(notice) and stray == old(stray) and closed_notices == old(closed_notices)"),
                   ("C03", "forall('m:Module', m.msg_count == old(m.msg_count) and m.connected == old(m.connected) and m.drops == old(m.drops)) and forall('c:Socket', c.closed == old(c.closed))"),
                   ("C18", "self.traffic_counter == old(self.traffic_counter) and self.message_counts == old(self.message_counts) and seen_tr == old(seen_tr) and seen_tm == old(seen_tm)"),
                   ("C03", "cur_gid == old(cur_gid) and fwd_hdr == old(fwd_hdr) and fwd_data == old(fwd_data) and forall('c:Socket', c.pending == old(c.pending) and c.frames == old(c.frames))"),
               ]})

    # ------------------------------------------------------------------ process_message
    ACKABLE = "(15, 16, 85, 86)"
    R.define("some_forward", "mm: MessageManager, g0: Int, h: MessageHeader, n: Int",
             "exists('g:Int', g0 <= g and g < gid_next and fwd_hdr[g] == h and fwd_data[g] != null and nbytes(fwd_data[g]) == n and fwd_data[g].base == mm.data_view)",
             "a delivery was made with the received header object and a view of exactly n bytes of the receive buffer")
    R.contract(M + "MessageManager.process_message", tags="C01 C03 C05 C06 C07 C19",
               params=dict(src_module="Module"),
               requires=TOP_REQ + [("C06", "ids_ok(self)"), "ismod(self, src_module)", "src_module != self.mm_module",
                                   ("C05", "0 <= self.hdr_obj.num_data_bytes and self.hdr_obj.num_data_bytes <= 1048576")],
               modifies=RD_MOD + IDENT + ["MessageManager.next_dynamic_mod_id_offset", "Module.subs"],
               ensures=[(t, c.replace("subs_shrink(self)", "True").replace("counts_monotone(self)", "forall('m:Module', m.msg_count >= old(m.msg_count))")) for t, c in TOP_ENS] + [
                   ("C06", "ids_ok(self)"),
                   ("C06", "others_identity_same(self, src_module)"),
                   ("C01 C02", "forall('m:Module', implies(m != src_module, m.subs == old(m.subs)))", "only the sender's own subscription set can change"),
                   # --- C19
                   ("C19", "forall('m:Module', implies(m != src_module, acks[m] == old(acks[m])))", "acknowledgements go to the sender only"),
                   ("C19", f"implies(old(self.hdr_obj.msg_type) in {ACKABLE} and ismod(self, src_module) and not src_module.conn.closed, acks[src_module] == old(acks[src_module]) + 1)",
                    "every SUBSCRIBE / UNSUBSCRIBE / PAUSE / RESUME is answered by exactly one ACKNOWLEDGE, whether or not it changed anything"),
                   ("C19", "acks[src_module] <= old(acks[src_module]) + 1 and acks[src_module] >= old(acks[src_module])"),
                   ("C19", f"implies(old(self.hdr_obj.msg_type) not in {ACKABLE} and old(self.hdr_obj.msg_type) != 13 and old(self.hdr_obj.msg_type) != 4, acks == old(acks) and ack_copies == old(ack_copies))",
                    "data frames, MODULE_READY, CLIENT_SET_NAME, DISCONNECT are never acknowledged"),
                   ("C19", "implies((old(self.hdr_obj.msg_type) == 13 or old(self.hdr_obj.msg_type) == 4) and old(src_module.connected), acks == old(acks) and ack_copies == old(ack_copies))",
                    "the CONNECT that follows an accepted CONNECT_V2 is not acknowledged again"),
                   ("C19 C06", "implies((old(self.hdr_obj.msg_type) == 13 or old(self.hdr_obj.msg_type) == 4) and not old(src_module.connected) and old(bad_request(self, src_module, self.data_obj, self.hdr_obj)), acks == old(acks) and not ismod(self, src_module))",
                    "a refused connection request is not acknowledged, and is closed"),
                   ("C19", "implies((old(self.hdr_obj.msg_type) == 13 or old(self.hdr_obj.msg_type) == 4) and not old(src_module.connected) and ismod(self, src_module) and src_module.connected and not src_module.conn.closed, acks[src_module] == old(acks[src_module]) + 1)",
                    "an accepted handshake is acknowledged exactly once"),
                   ("C19", f"implies((old(self.hdr_obj.msg_type) in {ACKABLE} or ((old(self.hdr_obj.msg_type) == 13 or old(self.hdr_obj.msg_type) == 4) and not old(src_module.connected) and src_module.connected)) and acks[src_module] == old(acks[src_module]) + 1, "
                            "forall('m:Module', implies(self.logger_modules[m] and not m.conn.closed and (m != src_module or old(self.logger_modules[m])), ack_copies[m] == old(ack_copies[m]) + 1)))",
                    "each acknowledgement is also copied to every logger module"),
                   # --- C01 / C05: the default branch forwards the received header and exactly the declared payload bytes
                   ("C01 C05", "implies(not is_control(old(self.hdr_obj.msg_type)), some_forward(self, old(gid_next), self.hdr_obj, old(self.hdr_obj.num_data_bytes)) and self.hdr_obj == old(self.hdr_obj))",
                    "every non-control type is forwarded with the received header and payload view"),
               ])
    R.define("is_control", "t: Int", "t in (13, 4, 14, 15, 16, 85, 86, 34, 26)")


def install7(R: Registry):
    """seventh part: statistics messages (C18) and the main loop (C03)"""
    TOP_REQ, TOP_ENS, TOP_MOD = R.TOP_REQ, R.TOP_ENS, R.TOP_MOD
    R.mark_inline(M + "MessageManager.sending_traffic_ctx")
    R.define("stats_sync", "mm: MessageManager",
             "forall('u:Int', mm.traffic_counter[u] == seen_tr[u] and seen_tr[u] >= 0) and forall('u:Int', dom(mm.traffic_counter)[u] == (seen_tr[u] > 0)) and "
             "forall('u:Int', mm.message_counts[u] == seen_tm[u] and seen_tm[u] >= 0) and forall('u:Int', dom(mm.message_counts)[u] == (seen_tm[u] > 0)) and not mm.sending_traffic",
             "between frames the counters equal the number of messages handled for forwarding since the last report")
    STAT_ENS = [(t, c if c != "counts_monotone(self)" else "forall('m:Module', m.msg_count >= old(m.msg_count) and implies(m.connected, old(m.connected)))")
                for t, c in TOP_ENS if c != "counter_sync(self)"]
    R.define("wrap16u", "v: Int", "wrap_int(v, 16, False)")

    # ------------------------------------------------------------------ TIMING_MESSAGE
    R.define("timing_payload", "d: MDF_TIMING_MESSAGE, cnt: Map[Int, Int]",
             "forall('t:Int', implies(0 <= t and t < 10000, d.timing[t] == wrap16u(cnt[t])))",
             "for every message type in range, the number of messages of that type handled since the previous report (uint16 field)")
    R.contract(M + "MessageManager.send_timing_message", tags="C18 C03",
               requires=TOP_REQ + [("C18", "stats_sync(self)"), ("C06", "ids_ok(self)"),
                                   "forall('m:Module', implies(ismod(self, m), 0 <= m.mod_id and m.mod_id < 200))"],
               modifies=TOP_MOD,
               ensures=STAT_ENS + [
                   ("C18", "stats_sync(self)"), ("C06", "ids_ok(self)"),
                   ("C18", "forall('u:Int', seen_tm[u] == 0) and seen_tr == old(seen_tr)", "the timing counters restart; the statistics message itself is not counted"),
                   ("C18", "gid_next > old(gid_next) and typeis(fwd_data[old(gid_next)], MDF_TIMING_MESSAGE) and fwd_hdr[old(gid_next)].msg_type == 80 and "
                           "timing_payload(cast(fwd_data[old(gid_next)], MDF_TIMING_MESSAGE), old(seen_tm))",
                    "the TIMING_MESSAGE that is broadcast carries exactly the per-type counts"),
                   ("C18", "forall('m:Module', implies(old(ismod(self, m)), exists('m2:Module', old(ismod(self, m2)) and m2.mod_id == m.mod_id and "
                           "cast(fwd_data[old(gid_next)], MDF_TIMING_MESSAGE).ModulePID[m.mod_id] == wrap_int(m2.pid, 32))))",
                    "for every module id in the table the process id of a module holding that id"),
               ],
               ghost_exit=["seen_tm = store_all_zero()"],
               loops={1: dict(invariant=[
                   "self.message_counts == old(self.message_counts) and seen_tm == old(seen_tm) and seen_tr == old(seen_tr) and typeis(data, MDF_TIMING_MESSAGE)",
                   "forall('t:Int', implies(0 <= t and t < 10000, data.timing[t] == ite(done[t], wrap16u(old(seen_tm)[t]), 0)))",
               ]), 2: dict(invariant=[
                   "self.modules == old(self.modules) and seen_tm == old(seen_tm) and seen_tr == old(seen_tr) and typeis(data, MDF_TIMING_MESSAGE)",
                   "forall('u:Int', self.message_counts[u] == 0 and not dom(self.message_counts)[u])",
                   "timing_payload(data, old(seen_tm))",
                   "forall('c:Socket', implies(done[c], exists('c2:Socket', done[c2] and self.modules[c2].mod_id == self.modules[c].mod_id and "
                   "data.ModulePID[self.modules[c].mod_id] == wrap_int(self.modules[c2].pid, 32))))",
               ])})


def install8(R: Registry):
    """MESSAGE_TRAFFIC (C18), ACTIVE_CLIENTS (C03)"""
    TOP_REQ, TOP_ENS, TOP_MOD = R.TOP_REQ, R.TOP_ENS, R.TOP_MOD
    STAT_ENS = [(t, c if c != "counts_monotone(self)" else "forall('m:Module', m.msg_count >= old(m.msg_count) and implies(m.connected, old(m.connected)))")
                for t, c in TOP_ENS if c != "counter_sync(self)"]
    R.define("entry_ok", "k: Int, j: Int, p: Int, sq: List[Int], cnt: Map[Int, Int]",
             "tr_types[k][j] == wrap_int(sq[p], 32) and tr_counts[k][j] == wrap16u(cnt[sq[p]])")
    R.contract(M + "MessageManager.send_traffic", tags="C18 C03",
               locals=dict(),
               requires=TOP_REQ + [("C18", "stats_sync(self)"), ("C06", "ids_ok(self)")],
               modifies=TOP_MOD + ["glob:tr_n", "glob:tr_types", "glob:tr_counts", "MessageManager.traffic_start", "MessageManager.traffic_seqno"],
               ghost_entry=["tr_n = 0"], ghost_results={"seq": "List[Int]"},
               ghost_after={"MessageManager.send_message": "tr_types = store(tr_types, tr_n, data.msg_type)\ntr_counts = store(tr_counts, tr_n, data.msg_count)\ntr_n = tr_n + 1"},
               ghost_exit=["seen_tr = store_all_zero()"],
               ensures=STAT_ENS + [
                   ("C18", "stats_sync(self)"), ("C06", "ids_ok(self)"),
                   ("C18", "forall('u:Int', seen_tr[u] == 0) and seen_tm == old(seen_tm)", "the interval restarts; the statistics messages themselves are not counted"),
                   ("C18", "forall('t:Int', implies(old(seen_tr)[t] > 0, 0 <= pos(seq, t) and pos(seq, t) < len(seq) and seq[pos(seq, t)] == t)) and "
                           "forall('p:Int', implies(0 <= p and p < len(seq), old(seen_tr)[seq[p]] > 0 and pos(seq, seq[p]) == p))",
                    "seq lists every message type seen in the interval exactly once"),
                   ("C18", "tr_n == (len(seq) + 63) // 64", "as many sub-messages as needed, none when nothing was seen"),
                   ("C18", "forall('k:Int j:Int', implies(0 <= k and k < tr_n and 0 <= j and j < 64 and 64 * k + j < len(seq), entry_ok(k, j, 64 * k + j, seq, old(seen_tr))))",
                    "entry j of sub-message k is the (64k+j)-th seen type with its exact count"),
                   ("C18", "forall('k:Int j:Int', implies(0 <= k and k < tr_n and 0 <= j and j < 64 and 64 * k + j >= len(seq), tr_types[k][j] == -1))",
                    "every other entry is marked unused: no count is attributed to a type that was not seen"),
               ],
               loops={1: dict(invariant=[
                   "wf_top(self) and table_shrinks(self) and departed(self) and stays_if_closed(self) and top_gids_untouched() and forall('m:Module', m.msg_count >= old(m.msg_count) and implies(m.connected, old(m.connected)))",
                   "subs_shrink(self) and acks == old(acks) and ack_copies == old(ack_copies) and ids_ok(self)",
                   "self.traffic_counter == old(self.traffic_counter) and self.message_counts == old(self.message_counts) and seen_tr == old(seen_tr) and seen_tm == old(seen_tm) and self.sending_traffic",
                   "typeis(data, MDF_MESSAGE_TRAFFIC) and data != null and nbytes(data) == data.type_size",
                   "tr_n == idx // 64 and sub_seqno == tr_n + 1 and i == ite(idx == 0, -1, (idx - 1) % 64)",
                   "forall('k:Int j:Int', implies(0 <= k and k < tr_n and 0 <= j and j < 64, entry_ok(k, j, 64 * k + j, seq, old(seen_tr))))",
                   "forall('j:Int', implies(0 <= j and j < idx % 64, data.msg_type[j] == wrap_int(seq[64 * (idx // 64) + j], 32) and data.msg_count[j] == wrap16u(old(seen_tr)[seq[64 * (idx // 64) + j]])))",
                   "implies(idx % 64 > 0, forall('j:Int', implies(idx % 64 <= j and j < 64, data.msg_type[j] == -1)))",
               ])})


def install9(R: Registry):
    """ACTIVE_CLIENTS and the main loop (C03)"""
    import z3
    from pyvc.core import Val, fresh_name, Exc
    TOP_REQ, TOP_ENS, TOP_MOD = R.TOP_REQ, R.TOP_ENS, R.TOP_MOD

    R.contract(M + "MessageManager.send_active_clients", tags="C03 C18",
               requires=TOP_REQ + [("C06", "ids_ok(self)")], modifies=TOP_MOD + ["MessageManager.last_client_info"],
               ensures=TOP_ENS + [("C06", "ids_ok(self)")],
               loops={1: dict(invariant=[
                   "wf_top(self) and table_shrinks(self) and subs_shrink(self) and departed(self) and stays_if_closed(self) and counts_monotone(self) and top_gids_untouched() and counter_sync(self)",
                   "acks == old(acks) and ack_copies == old(ack_copies) and typeis(msg, MDF_ACTIVE_CLIENTS) and msg != null and nbytes(msg) == msg.type_size and ids_ok(self)",
               ])})

    # ------------------------------------------------------------------ select / accept (environment)
    def select_h(eng, st, env, node):
        """select.select(r, w, x, t): arbitrary duplicate-free sub-lists of r and w.
        Obligation (C03): no locally closed socket in the lists (select raises ValueError on fd -1)."""
        S = eng.S
        outs = []
        x = z3.Const(fresh_name("sx"), S.Ref)
        def member(v):
            k = v.t[0]
            if k == "list" and v.z is None:
                return z3.BoolVal(False)
            if k == "list":
                i = z3.Int(fresh_name("i"))
                return z3.Exists([i], z3.And(0 <= i, i < eng.list_len(v), z3.Select(eng.list_at(v), i) == x))
            if k == "dictview":
                d = v.z[1]
                return z3.Select(eng.sort(d.t).dom(d.z), x)
            if k == "none":
                return z3.BoolVal(False)
            raise Exception(f"select over {v.t}")
        res = []
        for name in ("r", "w", "x"):
            mem = member(env[name])
            v0 = env[name]
            scls = "Socket"
            if v0.t[0] == "list" and len(v0.t) > 1 and v0.t[1][0] == "ref":
                scls = v0.t[1][1]
            elif v0.t[0] == "dictview" and v0.z[1].t[1][0] == "ref":
                scls = v0.z[1].t[1][1]
            closed = eng.heap_arr(st, scls, "closed", ("bool",))
            if not z3.is_false(mem):
                eng.oblige(st, f"{eng.func_key}/call:select.select/no_closed_socket[{name}]@{eng.rel(node)}", "requires@callsite",
                           z3.ForAll([x], z3.Implies(mem, z3.Not(z3.Select(closed, x)))), node, ("C03",),
                           "select.select raises ValueError when a closed socket is in one of its lists")
                st.assume(z3.ForAll([x], z3.Implies(mem, z3.Not(z3.Select(closed, x)))))
            L = eng.fresh(("list", ("ref", scls)), "sel_" + name)
            n, at = eng.list_len(L), eng.list_at(L)
            i, j = z3.Int(fresh_name("i")), z3.Int(fresh_name("j"))
            st.assume(n >= 0)
            if z3.is_false(mem):
                st.assume(n == 0)
            elif name == "w" and (env.get("t") is None or env["t"].t[0] == "none") and env["w"].t[0] == "list" and env["w"].z is not None:
                # a blocking select (no timeout) on one writable-candidate returns only when it is ready
                st.assume(n >= 1)
            else:
                st.assume(z3.ForAll([i], z3.Implies(z3.And(0 <= i, i < n), z3.substitute(mem, (x, z3.Select(at, i)))), patterns=[z3.Select(at, i)]))
                st.assume(z3.ForAll([i, j], z3.Implies(z3.And(0 <= i, i < j, j < n), z3.Select(at, i) != z3.Select(at, j))))
            res.append(L)
        return [(st, Val(("tuple",) + tuple(v.t for v in res), tuple(res)))]
    R.contracts["select.select"].handler = select_h
    R.assume_text("select.select returns duplicate-free sub-lists of its arguments (any subset may be ready); it raises ValueError for a closed socket")

    R.external("Socket.accept", params=dict(self="Socket"), returns="Tuple[Socket, Address]",
               requires=[("C03", "not self.closed")],
               modifies=["Socket.closed", "Socket.pending", "Socket.frames", "Socket.last_count"],
               ensures=["fresh(result[0]) and allocated(result[0]) and fresh(result[1]) and allocated(result[1]) and result[0] != result[1]",
                        "not result[0].closed and result[0].pending == 0 and result[0].frames == 0",
                        "forall('s:Socket', implies(s != result[0], s.closed == old(s.closed) and s.pending == old(s.pending) and s.frames == old(s.frames) and s.last_count == old(s.last_count)))"],
               doc="accept(): a new connected socket and its peer address (OSError such as EMFILE is assumed absent)")
    R.external("Socket.setsockopt", params=dict(self="Socket", a="Int", b="Int", c="Int"), pure=True, ensures=[])

    # ------------------------------------------------------------------ run
    R.define("table_allocated", "mm: MessageManager", "forall('c:Socket', implies(dom(mm.modules)[c], allocated(c) and allocated(mm.modules[c])))")
    R.define("run_inv", "mm: MessageManager",
             "wf_top(mm) and ids_ok(mm) and stats_sync(mm) and table_allocated(mm) and "
             "forall('m:Module', implies(ismod(mm, m), 0 <= m.mod_id and m.mod_id < 200))",
             "the manager invariant between select rounds")
    R.contract(M + "MessageManager.run", tags="C03",
               requires=[("C03", "wf_weak(self) and names_ok(self) and all_open(self) and buffers_ok(self) and cur_gid == 0 and ids_ok(self) and stats_sync(self) and table_allocated(self) and "
                                 "forall('m:Module', implies(ismod(self, m), 0 <= m.mod_id and m.mod_id < 200))")],
               modifies=TOP_MOD + ["MessageManager.*", "Module.*", "glob:_VALIDATION_ENABLED", "glob:tr_n", "glob:tr_types", "glob:tr_counts"],
               ensures=[],
               loops={1: dict(invariant=[("C03", "run_inv(self)")]),
                      2: dict(invariant=[
                          ("C03", "run_inv(self)"),
                          ("C03", "forall('j:Int', implies(0 <= j and j < len(rlist), rlist[j] != self.listen_socket and rlist[j] != null))"),
                      ]),
                      3: dict(invariant=[])})
