"""Class model, ghost state, spec functions and environment contracts shared by every manager proof.

Nothing here is verified: the class model is cross-checked against the source (an attribute
the code uses but the model lacks is UNSUPPORTED, never guessed) and the external contracts
are the assumptions of DESIGN §3, listed in every evidence file.
"""
from pyvc.spec import Registry


def install(R: Registry):
    # ------------------------------------------------------------------ classes
    R.declare_class("Socket", external=True, fields={}, ghost=dict(
        closed="Bool",         # close() was called locally
        pending="Int",         # payload bytes still owed for the frame being written (0 at a frame boundary)
        frames="Int",          # number of frame headers handed to sendall on this socket
        last_count="Int",      # msg_count field of the last header handed to sendall
        is_listen="Bool",
    ))
    R.declare_class("Buffer", external=True, fields=dict(base="Buffer"), ghost=dict(
        owner="MessageManager",   # the manager whose receive buffer this is (null for other byte objects)
        role="Int",               # 1: header receive buffer / view, 2: payload receive buffer / view, 0: anything else
    ))
    R.declare_class("RTMALogger", external=True, fields={}, ghost=dict(owner="MessageManager"))
    m = R.declare_class("Module", fields=dict(
        uid="Int", conn="Socket", address="Address", header_cls="Cls", name="Str", mod_id="Int", pid="Int",
        subs="Set[Int]", connected="Bool", is_logger="Bool", is_daemon="Bool", unique="Bool", drops="Int",
        msg_count="Int"), ghost={})
    m.dataclass = True
    m.ranges = {"msg_count": (0, 2 ** 31 - 2)}      # assumption: fewer than 2^31 frames per connection
    R.declare_class("Address", external=True, fields=dict(host="Str", portno="Int"))
    R.declare_class("Message", fields=dict(header="MessageHeader", data="MessageData"))
    R.declare_class("MessageManager", bases=["ClientLike"], fields=dict(
        _keep_running="Bool", ip_address="Str", port="Int", header_cls="Cls", header_size="Int",
        header_buffer="Buffer", header_view="Buffer", read_timeout="Float", write_timeout="Int",
        _debug="Bool", b_send_msg_timing="Bool", _logger="RTMALogger", listen_socket="Socket",
        modules="Dict[Socket, Module]", logger_modules="Set[Module]", next_dynamic_mod_id_offset="Int",
        subscriptions="DefaultDict[Int, Set[Module]]", sockets="List[Socket]", start_time="Float",
        message_counts="Counter[Int]", t_last_message_count="Float", min_timing_message_period="Float",
        last_client_info="Float", sending_traffic="CtxVar[Bool]", traffic_counter="Counter[Int]",
        traffic_start="Float", traffic_seqno="Int", _uid="Int", wlist="List[Socket]", mm_module="Module",
        data_buffer="Buffer", data_view="Buffer"),
        ghost=dict(
            hdr_obj="MessageHeader",      # the header object viewing header_buffer (one object per read)
            data_obj="MessageData",       # the payload object viewing data_buffer (one object per read)
        ))

    # ------------------------------------------------------------------ ghost globals
    R.ghost_global("_VALIDATION_ENABLED", "CtxVar[Bool]")
    R.ghost_global("gid_next", "Int")                       # next fresh delivery id
    R.ghost_global("cur_gid", "Int")                        # id of the innermost forward_message in progress (0: none)
    R.ghost_global("cur_hdr", "MessageHeader")
    R.ghost_global("cur_data", "Buffer")
    R.ghost_global("delivered", "Map[Int, Map[Module, Int]]")   # delivered[gid][m]: frames of gid handed to m
    R.ghost_global("stray", "Map[Int, Int]")               # frames sent during gid with another header/payload object
    R.ghost_global("notice", "Map[Int, Map[Module, Int]]")      # FAILED_MESSAGE raised for (gid, m)
    R.ghost_global("acks", "Map[Module, Int]")             # ACK frames written directly to m by send_ack
    R.ghost_global("ack_copies", "Map[Module, Int]")       # ACK copies written to logger m by send_to_loggers
    R.ghost_global("closed_notices", "Map[Module, Int]")   # CLIENT_CLOSED published for m
    R.ghost_global("rx_short", "Bool")                     # some recv of the frame being read returned fewer bytes than asked for (peer closed inside the frame)

    R.assume_text(
        "Module.__eq__ (dataclass field-wise) coincides with identity: uid and conn are unique per Module",
        "self.header / self.message return one object per read viewing the receive buffers (views of the same bytes are identified)",
    )
