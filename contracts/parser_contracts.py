"""Contracts for pyrtma/parser.py: layout (C11), conflicts (C12), version hash (C13)."""
from pyvc.spec import Registry

P = "pyrtma.parser:"


def install(R: Registry):
    R.declare_class("NativeType", fields=dict(name="Str", size="Int", format="Str"))
    f = R.declare_class("Field", fields=dict(name="Str", type_name="Str", type_obj="NativeType", length_expression="Str", length_expanded="Str",
                                             length="Int", offset="Int"),
                        ghost=dict(gsize="Int",     # Field.size: type_obj.size * (length or 1)
                                   galign="Int"))   # Field.alignment: natural alignment of the field's type
    f.dataclass = True
    f.choices = {"galign": [1, 2, 4, 8]}
    f.init_assume = ["implies(self.type_name == 'char', self.galign == 1 and self.gsize == ite(self.length > 0, self.length, 1))"]
    R.declare_class("SDF", fields=dict(raw="Str", hash="Str", name="Str", fields="List[Field]", alignment="Int"), ghost=dict(gtotal="Int"))
    R.declare_class("Parser", fields=dict(auto_pad="Bool", validate_alignment="Bool"))
    R.assume_text(
        "Field.size and Field.alignment are opaque getters here (size > 0, alignment in {1,2,4,8}, size a multiple of alignment: the type invariant of C11, which holds for the native table and, "
        "by check_alignment's own postcondition, for every nested struct); a padding field built from supported_types['char'] has size max(length,1) and alignment 1",
        "lemma packed_is_natural (proved by pyvc/lemmas.py on every run from the ABI layout recursion, which is the assumption left): if every field offset is a multiple of the field's alignment, "
        "offsets are contiguous from 0 and the end is a multiple of the strictest alignment, then the natural C / ctypes layout inserts no padding, i.e. ctypes.sizeof == sum of the field sizes",
    )
    c = R.external("Field.size", params=dict(self="Field"), returns="Int", pure=True, ensures=[])
    c.is_property = True
    c.returns_expr = "self.gsize"
    c = R.external("Field.alignment", params=dict(self="Field"), returns="Int", pure=True, ensures=[])
    c.is_property = True
    c.returns_expr = "self.galign"
    c.result_choices = [1, 2, 4, 8]
    R.external("Parser.warning", params=dict(self="Parser", msg="Str"), pure=True, ensures=[])
    # layout predicates over the field list of a struct
    R.define("al", "x: Int, a: Int", "a == 1 or (a == 2 and x % 2 == 0) or (a == 4 and x % 4 == 0) or (a == 8 and x % 8 == 0)",
             "x is a multiple of the alignment a (a is 1, 2, 4 or 8)")
    R.define("va", "a: Int", "a == 1 or a == 2 or a == 4 or a == 8")
    R.define("aligned_upto", "L: List[Field], k: Int",
             "forall('j:Int', implies(0 <= j and j < k, L[j] != null and al(L[j].offset, L[j].galign) and L[j].offset >= 0))")
    R.define("contig_upto", "L: List[Field], k: Int",
             "forall('i:Int j:Int', implies(0 <= i and j == i + 1 and j < k, L[j].offset == L[i].offset + L[i].gsize), pat=[(L[i], L[j])]) and implies(k > 0, L[0].offset == 0)",
             "each field starts where the previous one ends (stated over pairs of positions so that instantiation creates no new terms)")
    R.define("tpad", "s: SDF", "ite(len(s.fields) > 1 and s.fields[len(s.fields) - 1].offset == -1, 1, 0)",
             "1 when the last field is the trailing padding appended by check_alignment (its offset attribute is never filled in)")
    R.define("real_end", "s: SDF", "s.fields[len(s.fields) - 1 - tpad(s)].offset + s.fields[len(s.fields) - 1 - tpad(s)].gsize")
    R.define("total_end", "s: SDF", "real_end(s) + ite(tpad(s) == 1, s.fields[len(s.fields) - 1].gsize, 0)")
    R.define("layout_ok", "s: SDF",
             "len(s.fields) - tpad(s) > 0 and aligned_upto(s.fields, len(s.fields) - tpad(s)) and contig_upto(s.fields, len(s.fields) - tpad(s)) and "
             "implies(tpad(s) == 1, is_pad(s.fields[len(s.fields) - 1])) and "
             "forall('j:Int', implies(0 <= j and j < len(s.fields), al(total_end(s), s.fields[j].galign)))",
             "every field starts at a multiple of its alignment, fields are contiguous from offset 0, and the end of the struct (after the trailing padding) is a multiple of every member alignment")
    c = R.external("SDF.size", params=dict(self="SDF"), returns="Int", pure=True, ensures=[])
    c.is_property = True
    c.returns_expr = "self.gtotal"
    R.ghost_global("gsrc", "Map[Int, Int]")    # position in the padded field list -> index of the user field it holds (-1: inserted padding)
    R.ghost_global("gdst", "Map[Int, Int]")    # index of a user field -> its position in the padded field list
    R.external("Parser.get_ctype_size", params=dict(self="Parser", s="SDF"), returns="Int", pure=True,
               ensures=["implies(layout_ok(s), result == s.gtotal)"],
               doc="ctypes.sizeof of the structure built from the field list; equals the packed size when the layout is natural (lemma packed_is_natural)")
    R.define("is_pad", "f: Field", "f != null and f.type_name == 'char' and f.galign == 1 and f.gsize >= 1 and f.gsize < 8")
    R.define("orig_of", "L: List[Field], O: List[Field], k: Int, npad: Int",
             "True")
    INV1 = [
        "0 <= n and n <= len(s.fields) and 0 <= npad and ptr >= 0 and len(s.fields) == len(old(s.fields)) + npad",
        "forall('j:Int', implies(0 <= j and j < len(s.fields), s.fields[j] != null and s.fields[j].gsize > 0 and va(s.fields[j].galign) and al(s.fields[j].gsize, s.fields[j].galign)))",
        "aligned_upto(s.fields, n) and contig_upto(s.fields, n)",
        "forall('i:Int j:Int', implies(0 <= i and i < j and j < len(s.fields), s.fields[i] != s.fields[j]))",
        "implies(n > 0, ptr == s.fields[n - 1].offset + s.fields[n - 1].gsize) and implies(n == 0, ptr == 0)",
        # user fields are preserved, in order: positions >= n still hold the not yet visited original fields
        "forall('j:Int', implies(n <= j and j < len(s.fields), s.fields[j] == old(s.fields)[j - npad]))",
        "forall('j:Int', implies(0 <= j and j < len(s.fields), ite(gsrc[j] == -1, is_pad(s.fields[j]) and j < n, 0 <= gsrc[j] and gsrc[j] < len(old(s.fields)) and s.fields[j] == old(s.fields)[gsrc[j]] and gdst[gsrc[j]] == j)))",
        "forall('i:Int', implies(0 <= i and i < len(old(s.fields)), 0 <= gdst[i] and gdst[i] < len(s.fields) and gsrc[gdst[i]] == i))",
        "forall('i:Int k:Int', implies(0 <= i and i < k and k < len(old(s.fields)), gdst[i] < gdst[k]))",
        "forall('j:Int', implies(n <= j and j < len(s.fields), gsrc[j] == j - npad))",
        "implies(not self.auto_pad, npad == 0)",
        "forall('f:Field', implies(allocated_before(f), f.gsize == old(f.gsize) and f.galign == old(f.galign) and f.type_name == old(f.type_name)))",
        "s.alignment == old(s.alignment)",
    ]
    R.define("allocated_before", "f: Field", "old(allocated(f))")
    R.contract(P + "Parser.check_alignment", tags="C11", params=dict(s="SDF"),
               locals=dict(pad_len="Int"),
               ghost_entry=["gsrc = identity_map()\ngdst = identity_map()"],
               ghost_after={"list.insert": "gsrc = shift_insert(gsrc, n, -1)\ngdst = shift_up(gdst, n)",
                            "list.append": "gsrc = store(gsrc, len(s.fields) - 1, -1)",
                            "builtin:any": "lemma(implies(not _ret, forall('j:Int', implies(0 <= j and j < len(s.fields), al(pad_len + ptr, s.fields[j].galign)))), 'trailing')"},
               requires=["len(s.fields) > 0", ("C11", "forall('i:Int j:Int', implies(0 <= i and i < j and j < len(s.fields), s.fields[i] != s.fields[j]))", "the field objects of a struct are distinct"), "forall('j:Int', implies(0 <= j and j < len(s.fields), s.fields[j] != null and allocated(s.fields[j]) and s.fields[j].gsize > 0 and va(s.fields[j].galign) and al(s.fields[j].gsize, s.fields[j].galign)))",
                         "forall('j:Int', implies(0 <= j and j < len(s.fields), not is_pad_name(s.fields[j])))" if False else "True"],
               modifies=["SDF.fields", "SDF.alignment", "SDF.gtotal", "Field.*", "glob:gsrc", "glob:gdst"],
               ensures=[
                   ("C11", "layout_ok(s)", "each field starts at a multiple of its natural alignment, fields are contiguous, the size is a multiple of every member alignment: no hidden padding"),
                   ("C11", "s.alignment == 1 or s.alignment == 2 or s.alignment == 4 or s.alignment == 8"),
                   ("C11", "forall('j:Int', implies(0 <= j and j < len(s.fields), s.fields[j].galign <= s.alignment))", "the struct's own alignment requirement is at least that of every member ..."),
                   ("C11", "exists('j:Int', 0 <= j and j < len(s.fields) and s.fields[j].galign == s.alignment)", "... and no stricter than its strictest member: a parent never pads for it more than C would"),
                   ("C11", "forall('i:Int', implies(0 <= i and i < len(old(s.fields)), 0 <= gdst[i] and gdst[i] < len(s.fields) and s.fields[gdst[i]] == old(s.fields)[i]))",
                    "no user field is dropped: user field i sits at position gdst[i]"),
                   ("C11", "forall('i:Int k:Int', implies(0 <= i and i < k and k < len(old(s.fields)), gdst[i] < gdst[k]))", "user fields are never reordered"),
                   ("C11", "forall('j:Int', implies(0 <= j and j < len(s.fields), is_pad(s.fields[j]) or (0 <= gsrc[j] and gsrc[j] < len(old(s.fields)) and s.fields[j] == old(s.fields)[gsrc[j]])))",
                    "only char padding fields are inserted"),
                   ("C11", "forall('f:Field', implies(old(allocated(f)), f.gsize == old(f.gsize) and f.galign == old(f.galign)))", "no user field is resized"),
                   ("C11", "implies(not self.auto_pad, s.fields == old(s.fields))", "with automatic padding off nothing is inserted"),
               ],
               raises={"AlignmentError": [("C11", "not self.auto_pad", "a definition is refused only when automatic padding is off"),
                                          ("C11", "s.fields == old(s.fields)")]},
               loops={1: dict(invariant=INV1),
                      2: dict(invariant=[
                          "0 <= pad_len and ptr >= 0 and len(s.fields) > 0 and implies(ptr % 8 == 0, pad_len == 0) and implies(ptr % 8 > 0, pad_len <= 8 - ptr % 8)",
                          "aligned_upto(s.fields, len(s.fields)) and contig_upto(s.fields, len(s.fields))",
                          "ptr == s.fields[len(s.fields) - 1].offset + s.fields[len(s.fields) - 1].gsize and s.fields[len(s.fields) - 1].offset >= 0",
                          "s.fields == at_loop(s.fields) and s.alignment == old(s.alignment) and gsrc == at_loop(gsrc) and gdst == at_loop(gdst)",
                          "forall('f:Field', implies(old(allocated(f)), f.gsize == old(f.gsize) and f.galign == old(f.galign) and f.type_name == old(f.type_name)))",
                          "forall('j:Int', implies(0 <= j and j < len(s.fields), s.fields[j] != null and s.fields[j].gsize > 0 and va(s.fields[j].galign) and al(s.fields[j].gsize, s.fields[j].galign)))",
                      ])})


def install2(R: Registry):
    R.contract(P + "Parser.validate_msg_def", tags="C11", params=dict(mdf="SDF"),
               requires=["forall('j:Int', implies(0 <= j and j < len(mdf.fields), mdf.fields[j] != null and allocated(mdf.fields[j]) and mdf.fields[j].gsize > 0 and va(mdf.fields[j].galign) and al(mdf.fields[j].gsize, mdf.fields[j].galign)))",
                         "forall('i:Int j:Int', implies(0 <= i and i < j and j < len(mdf.fields), mdf.fields[i] != mdf.fields[j]))", "len(mdf.fields) >= 0"],
               modifies=["SDF.fields", "SDF.alignment", "SDF.gtotal", "Field.*", "glob:gsrc", "glob:gdst"],
               ensures=[("C11", "mdf.gtotal <= 65535", "definitions larger than 65535 bytes are rejected"),
                        ("C11", "implies(self.validate_alignment, layout_ok(mdf))", "an accepted definition has the natural, fully explicit layout")],
               raises={"InvalidMessageSize": [("C11", "mdf.gtotal > 65535")], "AlignmentError": [("C11", "not self.auto_pad and self.validate_alignment")],
                       "AssertionError": [("C11", "len(old(mdf.fields)) == 0", "a definition without fields is refused")]})


PARSER_C11 = [P + "Parser.check_alignment", P + "Parser.validate_msg_def"]


def install3(R: Registry):
    """C12: id / name conflicts are always detected and never invented (registry handlers)"""
    R.declare_class("PathObj", external=True, fields=dict(name="Str"))
    for cname in ("HID", "MID", "MT"):
        d = R.declare_class(cname, fields=dict(name="Str", value="Int", src="PathObj"))
        d.dataclass = True
    pc = R.classes["Parser"]
    from pyvc.core import parse_type
    pc.fields.update(dict(host_ids=parse_type("Dict[Str, HID]"), module_ids=parse_type("Dict[Str, MID]"), message_ids=parse_type("Dict[Str, MT]"),
                          current_file=parse_type("PathObj"), import_coredefs=parse_type("Bool")))
    R.external("Parser.check_name", params=dict(self="Parser", name="Str"), pure=True, ensures=[], raises={"RTMASyntaxError": []},
               doc="lexical check of an identifier (regex); raises RTMASyntaxError for an invalid name")
    R.external("PathObj.absolute", params=dict(self="PathObj"), returns="PathObj", pure=True, ensures=[])
    R.external("Parser.trim_root", params=dict(self="Parser", p="PathObj"), returns="PathObj", pure=True, ensures=["result != null"])
    R.mark_inline(P + "Parser.check_duplicate_name")

    def reg(field, cls):
        R.define(f"reg_{field}", "p: Parser",
                 f"forall('k:Str', implies(dom(p.{field})[k], p.{field}[k] != null and p.{field}[k].name == k)) and "
                 f"forall('a:Str b:Str', implies(dom(p.{field})[a] and dom(p.{field})[b] and a != b, p.{field}[a].value != p.{field}[b].value))",
                 f"{field}: every entry is stored under its own name and no two entries share an id")
        R.define(f"idclash_{field}", "p: Parser, v: Int", f"exists('k:Str', dom(p.{field})[k] and p.{field}[k].value == v)")
        R.define(f"nameclash_{field}", "p: Parser, n: Str", f"exists('k:Str', dom(p.{field})[k] and p.{field}[k].name == n)")
    reg("host_ids", "HID"); reg("module_ids", "MID"); reg("message_ids", "MT")

    def handler(fn, field, cls, err, bad_range):
        others = [f for f in ("host_ids", "module_ids", "message_ids") if f != field]
        R.contract(P + f"Parser.{fn}", tags="C12", params=dict(name="Str", value="Int"),
                   requires=[f"reg_{field}(self)", "self.current_file != null"],
                   modifies=[f"Parser.{field}", f"{cls}.*"],
                   ensures=[("C12", f"reg_{field}(self)", "the registry stays injective"),
                            ("C12", f"not old(idclash_{field}(self, value)) and not old(nameclash_{field}(self, name))", "accepted only when there is no conflict: a conflict is always detected"),
                            ("C12", f"dom(self.{field})[name] and self.{field}[name].value == value and self.{field}[name].name == name and "
                                    f"forall('k:Str', implies(k != name, dom(self.{field})[k] == old(dom(self.{field})[k]) and self.{field}[k] == old(self.{field}[k])))",
                             "exactly the new item is registered"),
                            ("C12", f"implies(self.import_coredefs and self.current_file.name != 'core_defs.yaml', not ({bad_range}))", "ids outside the permitted range are refused")],
                   raises={
                       "DuplicateNameError": [("C12", f"old(nameclash_{field}(self, name))", "a name conflict is reported only when there is one"), ("C12", f"self.{field} == old(self.{field})")],
                       err: [("C12", f"old(idclash_{field}(self, value))", "an id conflict is reported only when there is one"), ("C12", f"self.{field} == old(self.{field})")],
                       "RTMASyntaxError": [("C12", f"self.{field} == old(self.{field})")],
                       "InvalidTypeError": [("C12", "False")],
                   })
    handler("handle_host_id", "host_ids", "HID", "HostIDError", "value < 1 or value > 32767")
    handler("handle_module_id", "module_ids", "MID", "ModuleIDError", "(value < 10 or (99 < value and value < 200)) and value != 0")
    R.contract(P + "Parser.validate_msg_id", tags="C12", params=dict(name="Str", msg_id="Int"),
               requires=["reg_message_ids(self)"], modifies=[],
               ensures=[("C12", "not idclash_message_ids(self, msg_id) and 0 <= msg_id and msg_id <= 10000", "a message id is accepted only if it is in range and not used by any message, signal or reserved id")],
               raises={"MessageIDError": [("C12", "idclash_message_ids(self, msg_id)", "a conflict is reported only when there is one")],
                       "RTMASyntaxError": [("C12", "msg_id < 0 or msg_id > 10000")], "InvalidTypeError": [("C12", "False")]})


def install4(R: Registry):
    """C12: check_duplicate_name over the five shared namespaces (constants, string constants, aliases, structs, messages)"""
    from pyvc.core import parse_type
    FIVE = ("constants", "string_constants", "aliases", "struct_defs", "message_defs")
    R.declare_class("Named", external=True, fields=dict(name="Str", src="PathObj"))
    pc = R.classes["Parser"]
    for f in FIVE:
        pc.fields[f] = parse_type("Dict[Str, Named]")
    nonnull = " and ".join(f"forall('k:Str', implies(dom(self.{f})[k], self.{f}[k] != null))" for f in FIVE)
    clash = " or ".join(f"exists('k:Str', dom(self.{f})[k] and self.{f}[k].name == name)" for f in FIVE)
    R.contract(P + "Parser.check_duplicate_name#five", tags="C12", params=dict(section="Str", name="Str"), const_params=dict(namespaces=FIVE),
               requires=[nonnull, "self.current_file != null"], modifies=[],
               ensures=[("C12", f"not ({clash})", "a definition name is accepted only if no constant, string constant, alias, struct or message of the whole import closure already has it - "
                                                   "whatever section it is being added to")],
               raises={"DuplicateNameError": [("C12", clash, "a name conflict is reported only when there is one")]})


PARSER_C12 = [P + "Parser.check_duplicate_name#five", P + "Parser.handle_host_id", P + "Parser.handle_module_id", P + "Parser.validate_msg_id",
              P + "Parser.handle_string", P + "Parser.handle_expression#int", P + "Parser.handle_expression#str", P + "Parser.handle_alias", P + "Parser.handle_signal"]


def install5(R: Registry):
    """C12: the section handlers call check_duplicate_name with the five shared namespaces before they register (call sites under contract)"""
    FIVE = ("constants", "string_constants", "aliases", "struct_defs", "message_defs")
    clash = " or ".join(f"exists('k:Str', dom(self.{f})[k] and self.{f}[k].name == name)" for f in FIVE)
    nonnull = " and ".join(f"forall('k:Str', implies(dom(self.{f})[k], self.{f}[k] != null))" for f in FIVE)
    R.define("anyclash", "self: Parser, name: Str", clash, "some constant, string constant, alias, struct or message already has this name")
    R.define("tables_nonnull", "self: Parser", nonnull)
    d = R.declare_class("ConstantString", fields=dict(value="Str"), bases=["Named"])     # a Named (name, src) with a value: the tables hold Named references
    d.dataclass = True
    R.contract(P + "Parser.handle_string", tags="C12", params=dict(name="Str", value="Str"),
               requires=["tables_nonnull(self)", "self.current_file != null"],
               modifies=["Parser.string_constants", "ConstantString.*", "Named.*"],
               ensures=[("C12", "not old(anyclash(self, name))", "a string constant is accepted only if its name is free in all five shared namespaces"),
                        ("C12", "dom(self.string_constants)[name] and self.string_constants[name].name == name and "
                                "forall('k:Str', implies(k != name, dom(self.string_constants)[k] == old(dom(self.string_constants)[k]) and self.string_constants[k] == old(self.string_constants[k])))",
                         "exactly the new item is registered, under its own name"),
                        ("C12", "tables_nonnull(self)")],
               raises={"DuplicateNameError": [("C12", "old(anyclash(self, name))", "a name conflict is reported only when there is one"),
                                              ("C12", "self.string_constants == old(self.string_constants)")],
                       "RTMASyntaxError": [("C12", "self.string_constants == old(self.string_constants)")]})

    d = R.declare_class("ConstantExpr", fields=dict(expression="Str", expanded="Str", value="Int"), bases=["Named"])
    d.dataclass = True
    R.external("Parser.expand_expression", params=dict(self="Parser", name="Str", expr="Str"), returns="Tuple[Str, Int]", pure=True, ensures=[],
               raises={"ExpressionExpansionError": [], "CircularRefError": [], "RecursionError": [], "Exception": []},
               doc="macro expansion and eval of a constant expression: a value or an error; registers nothing")
    for kind, ty in (("int", "Int"), ("str", "Str")):
        R.contract(P + "Parser.handle_expression#" + kind, tags="C12", params=dict(name="Str", expression=ty),
                   requires=["tables_nonnull(self)", "self.current_file != null"],
                   modifies=["Parser.constants", "ConstantExpr.*", "Named.*"],
                   ensures=[("C12", "not old(anyclash(self, name))", "a constant is accepted only if its name is free in all five shared namespaces"),
                            ("C12", "dom(self.constants)[name] and self.constants[name].name == name and "
                                    "forall('k:Str', implies(k != name, dom(self.constants)[k] == old(dom(self.constants)[k]) and self.constants[k] == old(self.constants[k])))",
                             "exactly the new item is registered, under its own name"),
                            ("C12", "tables_nonnull(self)")],
                   raises={"DuplicateNameError": [("C12", "old(anyclash(self, name))", "a name conflict is reported only when there is one"),
                                                  ("C12", "self.constants == old(self.constants)")],
                           "RTMASyntaxError": [("C12", "self.constants == old(self.constants)")],
                           "ExpressionExpansionError": [("C12", "self.constants == old(self.constants)")], "CircularRefError": [("C12", "self.constants == old(self.constants)")],
                           "RecursionError": [("C12", "self.constants == old(self.constants)")], "Exception": [("C12", "self.constants == old(self.constants)")],
                           "InvalidTypeError": [("C12", "False")]})

    d = R.declare_class("TypeAlias", fields=dict(type_name="Str", type_obj="Named"), bases=["Named"])
    d.dataclass = True
    R.define("aliases_typed", "self: Parser", "forall('k:Str', implies(dom(self.aliases)[k], dtype(self.aliases[k]) == classid(TypeAlias)))", "the alias table holds TypeAlias objects")
    ALIAS_INV = ["self.aliases == old(self.aliases) and tables_nonnull(self) and not old(anyclash(self, alias)) and aliases_typed(self)",
                 "forall('o:Named', implies(old(allocated(o)), o.name == old(o.name)))"]
    R.contract(P + "Parser.handle_alias", tags="C12", params=dict(alias="Str", ftype="Str"),
               requires=["tables_nonnull(self)", "self.current_file != null", "aliases_typed(self)"],
               modifies=["Parser.aliases", "TypeAlias.*", "Named.*"],
               ensures=[("C12", "not old(anyclash(self, alias))", "an alias is accepted only if its name is free in all five shared namespaces"),
                        ("C12", "dom(self.aliases)[alias] and self.aliases[alias].name == alias and "
                                "forall('k:Str', implies(k != alias, dom(self.aliases)[k] == old(dom(self.aliases)[k]) and self.aliases[k] == old(self.aliases[k])))",
                         "exactly the new item is registered, under its own name"),
                        ("C12", "tables_nonnull(self) and aliases_typed(self)")],
               raises={"DuplicateNameError": [("C12", "old(anyclash(self, alias))", "a name conflict is reported only when there is one"),
                                              ("C12", "self.aliases == old(self.aliases)")],
                       "RTMASyntaxError": [("C12", "self.aliases == old(self.aliases)")], "RecursionError": [("C12", "self.aliases == old(self.aliases)")],
                       "InvalidTypeError": [("C12", "False")]},
               loops={1: dict(invariant=ALIAS_INV), 2: dict(invariant=ALIAS_INV), 3: dict(invariant=ALIAS_INV)})

    from pyvc.core import parse_type
    d = R.declare_class("MDF", fields=dict(raw="Str", hash="Str", type_id="Int", fields="List[Field]", alignment="Int"), bases=["Named"])
    d.dataclass = True
    R.external("textwrap.dedent", params=dict(text="Str"), returns="Str", pure=True, ensures=[])
    R.declare_class("HashObj", external=True, fields={})
    R.external("hashlib.sha256", params=dict(data="Buffer"), returns="HashObj", pure=True, ensures=["result != null"], doc="sha256 of the text (the digest itself is the business of C13's template contract)")
    R.external("HashObj.hexdigest", params=dict(self="HashObj"), returns="Str", pure=True, ensures=[])
    R.contract(P + "Parser.handle_signal", tags="C12", params=dict(name="Str", mdf="Dict[Str, Int]"),
               requires=["reg_message_ids(self)", "tables_nonnull(self)", "self.current_file != null", "dom(mdf)['id']"],
               modifies=["Parser.message_ids", "Parser.message_defs", "MT.*", "MDF.*", "Named.*"],
               ensures=[("C12", "not old(idclash_message_ids(self, mdf['id'])) and 0 <= mdf['id'] and mdf['id'] <= 10000",
                         "a signal (or reserved id) is registered only if its id is in range and not used by any message, signal or reserved id"),
                        ("C12", "dom(self.message_ids)[name] and self.message_ids[name].value == mdf['id'] and self.message_ids[name].name == name and "
                                "forall('k:Str', implies(k != name, dom(self.message_ids)[k] == old(dom(self.message_ids)[k]) and self.message_ids[k] == old(self.message_ids[k])))",
                         "the id registered is the id validated, under the definition's own name: a later definition with the same id conflicts with it"),
                        ("C12", "dom(self.message_defs)[name] and self.message_defs[name].name == name and "
                                "forall('k:Str', implies(k != name, dom(self.message_defs)[k] == old(dom(self.message_defs)[k]) and self.message_defs[k] == old(self.message_defs[k])))")],
               raises={"MessageIDError": [("C12", "old(idclash_message_ids(self, mdf['id']))", "a conflict is reported only when there is one"),
                                          ("C12", "self.message_ids == old(self.message_ids) and self.message_defs == old(self.message_defs)")],
                       "RTMASyntaxError": [("C12", "mdf['id'] < 0 or mdf['id'] > 10000"), ("C12", "self.message_ids == old(self.message_ids) and self.message_defs == old(self.message_defs)")],
                       # the engine's str.encode() is the ASCII codec (it may raise); the real default codec is UTF-8, which does not: an over-approximation, nothing is registered on that path
                       "UnicodeEncodeError": [("C12", "self.message_ids == old(self.message_ids) and self.message_defs == old(self.message_defs)")],
                       "InvalidTypeError": [("C12", "False")]})
