"""per-property plan: which functions are verified (quick / thorough), assumptions reported in the evidence"""
from .targets import MANAGER_ALL, M

MM = M + "MessageManager."
MGR_SIDECARS = ["contracts.manager_model", "contracts.manager_contracts"]

ENV_ASSUMPTIONS = [
    "pyvc encoding of the python subset (DESIGN 2.2): unbounded ints, reference heap, exceptions as outcomes, CPython list-iterator and mutation-during-iteration behaviour",
    "socket contracts (DESIGN 3): sendall writes everything or raises ConnectionError (OSError EBADF on a locally closed socket); recv_into MSG_WAITALL returns k<=n bytes or raises ConnectionError; select returns arbitrary duplicate-free sub-lists; accept returns a fresh socket; other OSErrors (EMFILE, ETIMEDOUT) absent",
    "logging: logger.<level>() dispatches to RTMALogHandler.emit, i.e. behaves like send_message(RTMA_LOG_*) with Exception swallowed, or does nothing",
    "ctypes: natural-alignment layout, integer stores keep the low bits when validation is disabled, views created by from_buffer alias scalar fields of equal offset/size/kind",
    "fewer than 2^31 frames per connection (msg_count is an int32 field)",
    "TCP delivers a connection's byte stream in order without loss until close",
    "solver: z3 5.1 (cvc5 1.0.3 as second opinion on what z3 leaves open)",
]


def _mgr(*names):
    out = []
    for n in names:
        out.append(M + n if n.startswith("Module.") else MM + n)
    return out


PLAN = {
    "C01": dict(
        functions=dict(quick=_mgr("Module.send_message", "forward_message", "process_message", "add_subscription", "remove_subscription",
                                  "remove_module", "read_message", "send_message", "run"),
                       thorough=MANAGER_ALL),
        sidecars=MGR_SIDECARS, assumptions=ENV_ASSUMPTIONS,
        explanation="routing exactness is the postcondition of forward_message (recipients = subscribers at entry that pass the destination filter and are ready or loggers, "
                    "each exactly once, header fields and payload object unchanged, nothing for out-of-range destinations) over the table invariant wf, which every handler preserves; "
                    "process_message forwards the received header and exactly the declared bytes; run() (service order = arbitrary permutation of an arbitrary ready subset) preserves wf"),
    "C03": dict(
        functions=dict(quick=MANAGER_ALL, thorough=MANAGER_ALL),
        sidecars=MGR_SIDECARS, assumptions=ENV_ASSUMPTIONS,
        explanation="no function reachable from run() can raise (every partial operation is a safety obligation: subscripts, dict keys, recv_into sizes, ascii decoding, "
                    "ctypes array indices, sends on closed sockets, containers mutated while iterated), and the loop body of run() re-establishes the manager invariant"),
    "C05": dict(
        functions=dict(quick=_mgr("Module.send_message", "forward_message", "send_message", "send_ack", "send_to_loggers", "send_failed_message",
                                  "send_client_close", "send_client_info", "process_message", "read_message", "connect_module"),
                       thorough=MANAGER_ALL),
        sidecars=MGR_SIDECARS, assumptions=ENV_ASSUMPTIONS,
        explanation="whole frames and gap-free sequence numbers are the protocol preconditions of Socket.sendall (header only at a frame boundary, msg_count == frames + 1, payload of exactly "
                    "the declared length), discharged in Module.send_message, whose own precondition nbytes(payload) == header.num_data_bytes is pushed to every caller (I6 of the invariant)"),
    "C06": dict(
        functions=dict(quick=_mgr("connect_module", "assign_module_id", "remove_module", "process_message"), thorough=MANAGER_ALL),
        sidecars=MGR_SIDECARS, assumptions=ENV_ASSUMPTIONS,
        explanation="ids_ok (no two connected modules share an id unless both allow multiple instances; ids in range) is preserved by connect_module, whose postcondition also states that "
                    "every option of the request takes effect as named, that refusals close the requester and leave every incumbent untouched, and that id 0 gets a free dynamic id"),
    "C07": dict(
        functions=dict(quick=_mgr("remove_module", "send_client_close", "read_message", "forward_message", "send_ack", "send_to_loggers", "connect_module", "process_message", "run"),
                       thorough=MANAGER_ALL),
        sidecars=MGR_SIDECARS, assumptions=ENV_ASSUMPTIONS,
        explanation="remove_module's postcondition: gone from the table, from every subscription set and from the logger set, closed, exactly one CLIENT_CLOSED; `departed`: modules only leave by "
                    "being closed, each departure publishes exactly one notice; the delivery postcondition of forward_message is stated over the modules still connected afterwards"),
    "C14": dict(
        functions=dict(quick=_mgr("forward_message", "send_failed_message", "send_to_loggers", "send_ack", "remove_module"), thorough=MANAGER_ALL),
        sidecars=MGR_SIDECARS, assumptions=ENV_ASSUMPTIONS,
        explanation="send_failed_message forwards exactly one FAILED_MESSAGE naming the subscriber and carrying the original type/source/destination unless the type is in the recursion guard; "
                    "forward_message raises one for every eligible subscriber that is not ready; loggers are waited for (select) and never take the drop branch"),
    "C18": dict(
        functions=dict(quick=_mgr("forward_message", "send_timing_message", "send_traffic", "send_message"), thorough=MANAGER_ALL),
        sidecars=MGR_SIDECARS, assumptions=ENV_ASSUMPTIONS + ["counts are reported modulo 2^16 (uint16 fields), as the property's quantifier bounds them by 65535"],
        explanation="ghost counters seen_tr / seen_tm count forward_message calls outside the statistics context; counter_sync (every broadcasting function) keeps the real counters in step; "
                    "send_timing_message / send_traffic postconditions describe the emitted payloads entry by entry"),
    "C19": dict(
        functions=dict(quick=_mgr("process_message", "connect_module", "send_ack", "send_to_loggers", "Module.send_message"), thorough=MANAGER_ALL),
        sidecars=MGR_SIDECARS, assumptions=ENV_ASSUMPTIONS,
        explanation="ghost acks[m] counts ACK frames written by send_ack's direct send; process_message's postcondition: +1 for the sender exactly for SUBSCRIBE/UNSUBSCRIBE/PAUSE/RESUME and an accepted "
                    "handshake, 0 for everything else and for every other module; one copy per logger; order follows from frames of a connection being processed one at a time (FIFO assumption)"),
}
from .targets import CLIENT_C02, CLIENT_C08, CLIENT_C06, CLIENT_SIDECARS
CLIENT_ASSUMPTIONS = [
    "client side: a blocking send hands one frame to the manager, which processes a connection's frames in order (TCP FIFO); agreement is evaluated at quiescence",
    "Client.__init__ and Client._socket_connect are trusted contracts (constructor, socket set-up), listed under assumed contracts; Client.disconnect is verified from source (socket.close is "
    "an external contract); on entry it ASSUMES the object's type invariants - fewer than 2^31 frames sent, int16 module and host ids - instead of demanding them from every caller",
    "the body of a `with` on a context manager under contract is effect-free on the state the contract mentions and ends normally",
    "message type ids are int32 values",
]
PLAN["C02"] = dict(
    functions=dict(quick=CLIENT_C02 + _mgr("add_subscription", "remove_subscription"), thorough=CLIENT_C02 + _mgr("add_subscription", "remove_subscription", "process_message", "forward_message")),
    sidecars=CLIENT_SIDECARS, assumptions=ENV_ASSUMPTIONS + CLIENT_ASSUMPTIONS,
    explanation="ghost mgr_subs is the manager's view of the client's subscription set, advanced per control frame by add_step / remove_step - the functions proved to be exactly the effect of "
                "MessageManager.add_subscription / remove_subscription; _subscription_control and every public wrapper preserve `agree` (mgr_subs == subscribed set) and the bookkeeping invariant, "
                "refuse individual changes while subscribed to all without sending anything, and the two scoped contexts restore the entry sets on normal exit")
PLAN["C08"] = dict(
    functions=dict(quick=CLIENT_C08, thorough=CLIENT_C08),
    sidecars=CLIENT_SIDECARS, assumptions=ENV_ASSUMPTIONS + CLIENT_ASSUMPTIONS + [
        "the inbound byte stream is a sequence of well-formed frames (num_data_bytes >= 0) possibly cut by EOF at any byte; recv/recv_into with MSG_WAITALL return fewer bytes only at EOF",
        "header byte-identity is stated for every field except recv_time, which the reader stamps by definition of the field",
        "get_msg_cls(t) returns the class registered for t or raises UnknownMessageType"],
    explanation="ghost cursor (frame index, offset) on the client socket; _read_message returns frame i with header fields and payload identity as sent and leaves the cursor at frame i+1, or raises the "
                "documented error having consumed the whole frame, or ConnectionLost with the client disconnected; a frame whose payload size differs from the local definition, or - with the sync check - whose "
                "non-zero version differs from the local hash, is never returned, with or without payload; read_message only returns subscribed types (current set), ACK on request")
PLAN["C06"]["functions"] = dict(quick=PLAN["C06"]["functions"]["quick"] + CLIENT_C06, thorough=MANAGER_ALL + CLIENT_C06)
PLAN["C06"]["sidecars"] = CLIENT_SIDECARS
PLAN["C06"]["assumptions"] = ENV_ASSUMPTIONS + CLIENT_ASSUMPTIONS
from .validator_contracts import VALIDATOR_TARGETS
from .parser_contracts import PARSER_C11, PARSER_C12
PLAN["C09"] = dict(
    functions=dict(quick=VALIDATOR_TARGETS, thorough=VALIDATOR_TARGETS), sidecars=["contracts.validator_contracts"],
    assumptions=ENV_ASSUMPTIONS[:1] + [
        "floats: z3 FloatingPoint (IEEE-754 binary64, RNE), a c_float store is the binary32 rounding; NaN payloads are not distinguished",
        "ctypes scalar conversion: c_float(x)/c_double(x) raise TypeError unless x is int or float; ints beyond +-2^200 (OverflowError) are excluded by precondition",
        "builtin max/min fold specification (attained bound); any()/all() are bounded quantifiers over the sequence",
        "contextlib.contextmanager drives the generator: the with-body's exception is thrown at the yield",
        "NOT under contract (trusted, outside this check): String.__set__ / Char (ctypes store and memset), ArrayField.__setitem__/__set__ (ctypes slice store after validation), Struct / StructArray "
        "class checks, Byte.__set__; their validate_* helpers that are under contract are the numeric cores the property's boundary cases live in"],
    level_text="SMT-discharged contracts (pyvc/z3, real source re-read on every run) on the validator functions - see the explanation below - plus ONE applicability obligation decided syntactically "
               "(by_backend 'dataflow'): validators._VALIDATION_ENABLED, which the sidecar models as a context variable, is bound to contextvars.ContextVar(..., default=True) and never rebound, so "
               "the single-context contracts (validation in force outside a disable block) hold in every thread and task; a process-wide replacement is refuted and replayed with two threads. ",
    explanation="each validator function is verified once per kind of python value (int, bool, float, str, None, list of ints/floats, ctypes array, list of ARBITRARY python values - "
                "ints, floats and other objects mixed - for the integer, byte and double array checks): validate_one / validate_many raise exactly for values outside "
                "the field's domain (range for the 8 integer classes, overflow-to-infinity after rounding for Float/Double incl. next to NaN, length/ASCII for strings); __set__ stores only after "
                "validation (refusal leaves the message untouched: frame) and reads back the assigned value; disable_message_validation restores the flag on both continuations of its yield")
PLAN["C09"]["level_text"] = PLAN["C09"]["level_text"] + PLAN["C09"]["explanation"]
PLAN["C11"] = dict(
    functions=dict(quick=PARSER_C11, thorough=PARSER_C11), sidecars=["contracts.parser_contracts"],
    assumptions=ENV_ASSUMPTIONS[:1] + [
        "Field.size / Field.alignment / SDF.size are opaque getters over immutable ghost values (size > 0, alignment in {1,2,4,8}, size a multiple of alignment: the type invariant, which natives satisfy by table and nested structs by check_alignment's own postcondition)",
        "lemma packed_is_natural - aligned, contiguous fields from offset 0 whose end is a multiple of every member alignment have natural size == sum of field sizes (get_ctype_size contract) - "
        "is PROVED on every run (pyvc/lemmas.py: base / step / no-trailing-padding VCs, z3) from the C ABI layout rule, which is what stays assumed: each field starts at the least multiple of "
        "its alignment after the previous field, the size is rounded up to the strictest member alignment",
        "the Field objects of a struct are pairwise distinct; Optional[int] lengths are modelled as ints with None == 0"],
    explanation="check_alignment: loop invariants over (n, ptr, npad) and two ghost position maps (user field -> position, position -> user field or padding) give: every offset a multiple of the "
                "field's alignment, fields contiguous from 0, end of struct a multiple of every member alignment (so the final ctypes size assert cannot fail), only char paddings inserted, user "
                "fields never dropped, reordered or resized, AlignmentError only with auto_pad off; validate_msg_def rejects sizes above 65535")
PLAN["C12"] = dict(
    functions=dict(quick=PARSER_C12, thorough=PARSER_C12), sidecars=["contracts.parser_contracts"],
    assumptions=ENV_ASSUMPTIONS[:1] + [
        "Parser.check_name (regex) and trim_root / pathlib are external; ruamel.yaml rejects duplicate keys inside one file",
        "handle_reserve (integer entries as they are, spans with both ends, every reserved id registered through handle_signal) is a dataflow contract decided syntactically "
        "(pyvc/importcheck.py), the regex is not modelled; handle_struct and handle_message_def (their calls of the name check; field parsing) are not under contract - "
        "handle_string, handle_expression, handle_alias and handle_signal are, with the name check inlined from source",
        "Parser.expand_expression (regex macro expansion + eval), hashlib.sha256, textwrap.dedent are external; the engine's str.encode() is the ASCII codec (an extra exceptional path, nothing registered on it)",
        "parse_file's frame on self.current_file (restored on every normal exit, set to the file being read before parse_text) - on which the verified range clauses of handle_host_id / "
        "handle_module_id depend, since they exempt ids by the current file's name - is decided by an abstract interpretation of the one function (pyvc/importcheck.py), not by SMT",
        "parse_file's import de-duplication ('every file is read once however it is reached') is decided by a syntactic dataflow contract on the one function (pyvc/importcheck.py: canonical key, "
        "skip test on that key, append before read), not by SMT; pathlib.resolve() is assumed canonical"],
    explanation="registry invariant (every entry stored under its own name, ids injective) preserved by handle_host_id / handle_module_id; acceptance implies no id or name clash with any registered "
                "item (the search loops' normal exit), each error is raised only when the corresponding clash exists, range errors exactly outside the permitted ranges (with the core_defs / "
                "import_coredefs exemptions); validate_msg_id likewise for messages, signals and reserved ids")
from pyvc import tables as _tables, detcheck as _detcheck, hashcheck as _hashcheck, importcheck as _importcheck, rgcheck as _rgcheck
from .logger_contracts import LOGGER_C17, LOGGER_SIDECARS
PLAN["C12"]["extra"] = [_importcheck.check, _importcheck.check_reserve, _importcheck.check_current_file, _importcheck.check_name_sites]
from pyvc import lemmas as _lemmas
PLAN["C11"]["extra"] = [_importcheck.check_layout_pass, _lemmas.check_packed_is_natural]
from pyvc import bindcheck as _bindcheck
PLAN["C09"]["extra"] = [_bindcheck.check]
PLAN["C11"]["level_text"] = ("SMT-discharged contracts (pyvc/z3, real source re-read on every run) for Parser.check_alignment and validate_msg_def - see the explanation below - plus one contract decided "
                            "by a syntactic path analysis, not by SMT (by_backend 'dataflow' in the evidence): every normal exit of Parser.add_fields, the field-list-reuse branch included, is preceded "
                            "by validate_msg_def, so every definition goes through the verified layout pass; it has a replay on the real parser. The lemma that links the proved layout "
                            "predicate to 'no hidden padding' (packed_is_natural) is itself proved by z3 on every run from the ABI's layout recursion. " + PLAN["C11"]["explanation"])
PLAN["C12"]["level_text"] = ("Mixed. SMT-discharged contracts (pyvc/z3, real source re-read on every run) for handle_host_id, handle_module_id, validate_msg_id and check_duplicate_name over the five shared "
                            "namespaces: the registries stay injective, acceptance implies no id / name clash anywhere in the import closure, each error is raised only when that clash exists, ranges "
                            "are enforced. Two further contracts are decided by a syntactic dataflow analysis of one function each, not by SMT, and are labelled so in the evidence (by_backend "
                            "'dataflow'): parse_file's de-duplication key is the canonical path (every file read once however it is reached) and handle_reserve registers every id of a reserved "
                            "entry (spans with both ends). Both have replays on the real parser. Also SMT-discharged from their real source: handle_string, handle_expression (int and str variants), "
                            "handle_alias and handle_signal - each accepts a name only if it is free in all five shared namespaces (the name check is inlined from source at its call site, so a "
                            "handler that checks fewer namespaces fails), registers exactly the new item under its own name, reports DuplicateNameError only when a clash exists and leaves the "
                            "tables untouched on every error; handle_signal registers the very id it validated. A third dataflow contract: parse_file restores self.current_file on every normal "
                            "exit (the 'already included' return too) and sets it to the file being read before parse_text - the range clauses exempt ids by that file's name. "
                            "Not under contract: handle_struct / handle_message_def (their call of the name check, field parsing), handle_reserve's regex, expand_expression.")
PLAN["C04"] = dict(
    functions=[], extra=[_tables.check], level="other",
    level_text="PARTIAL (T1 + attribute agreement + three dataflow contracts; emitted text is not modelled). Added to T1: (i) MessageMeta.__new__ turns EVERY class-body entry that has a _ctype "
               "attribute into the ctypes field ('_' + key, entry._ctype) - no condition on the key's spelling guards the probe (dataflow contract on the real AST; replayed with a field named "
               "_rsvd against gcc sizeof/offsetof); (ii) in every `#define <name> <value>` the C back end prints, a literal blank separates name and value for every name length (a format "
               "spec pads, it does not separate; replayed with 52- and 57-character names); (iii) each back end prints each kind of model item from the same attributes of the parser model. "
               "T1 as before: the six hand-written native type tables (parser supported_types, Parser.get_ctype_cls, python type_map and "
               "desctype_map, c99, javascript, matlab type_map) are read from the AST of the current tree and 27 names x 6 tables = 162 ground obligations (same width, same signedness/kind, "
               "every name the parser accepts has an entry in every table) are discharged by z3. That every back end prints the same ids, hashes, field order and array lengths from the shared "
               "parser model (T2-T7: emitted text against target-language readers) is NOT decided: the Emit domain of DESIGN 2.5 was not built. Struct size/offset agreement rests on C11.",
    technique="contract-based: table-agreement obligations generated from the dict literals in the real source, discharged by z3 (ground); no model of the emitted text",
    assumptions=["meaning of each target type name (int32_t, Int32Array, 'int32', ctypes.c_int32 ...) is a fixed (width, kind) table inside pyvc/tables.py (LP64 C ABI for the ctypes names)",
                 "T2-T7 (emitters print the shared model faithfully in all four languages) are not decided by this check"],
    explanation="T1 only: native type tables of the five back ends and the parser agree on width and kind for every accepted native type name")
PLAN["C16"] = dict(
    functions=[], extra=[_detcheck.check], level="other",
    level_text="PARTIAL. (a) determinism: one effect obligation per function of parser.py, compile.py and compilers/*.py - it reads no clock, random source, environment variable, object "
               "identity or hash and iterates over no set - discharged by a syntactic frame analysis of the AST (a frame condition, not an SMT proof); (c) currency: the ground obligation "
               "compile(core_defs.yaml) == shipped core_defs.py (byte for byte, two runs equal) is decided by evaluating the real compiler on the real files. (b) the combined-YAML round trip is NOT decided "
               "(a bounded stand-in on the one shipped closure runs with the check and is reported under `bounded`). The effect obligation also covers state shared between compilations in one process: "
               "no function mutates a module-level container or lets a module-level container of containers escape other than through deepcopy (replayed with two Parser objects in one process); "
               "the legacy header compiler python_v1.py, whose cumulative typedef table is by design, is excepted and listed.",
    technique="contract-based frame conditions (effect obligations per function, decided syntactically) plus one ground obligation decided by evaluating the real compiler; no SMT",
    assumptions=["library calls (ruamel.yaml, black, hashlib, textwrap, re, pathlib) are deterministic functions of their arguments", "dicts iterate in insertion order (language guarantee)"],
    explanation="determinism as a frame condition over every compiler function; currency of core_defs.py as a ground fact; combined-YAML clause not decided")

PLAN["C13"] = dict(
    functions=[_c for _c in CLIENT_C08 if _c.endswith("Client.send_message")] + ["pyrtma.client:Client.send_signal"], sidecars=CLIENT_SIDECARS, extra=[_hashcheck.check], level="other",
    level_text="PARTIAL, two deciders. (1) Template contract on Parser.handle_message_def / handle_signal / handle_struct: the stored hash is sha256 of a text whose template - computed from the real AST on "
               "every run by abstract evaluation of the string-building statements - depends on nothing but name, id and the (field name, type text) pairs in document order, contains each of them "
               "verbatim on every branch, and parses uniquely (separator after every element outside the element's lexical class), so equal element lists give equal hashes anywhere and different lists "
               "give different hashed texts; the id hashed is the id registered; all six emit sites of the four back ends print hash[:8], and in the C header's `#define HASH_<name> 0x<hash>` a literal "
               "blank separates the macro name from the value for every name length (replayed with a 52-character message name). This is a syntactic template analysis, not an SMT proof; "
               "constructs outside its language are reported undecided. (2) Client.send_message stamps header.version = msg_data.type_hash: postcondition proved by pyvc/z3 on the real function. "
               "Not decided: collision-freedom of sha256 / its 32-bit prefix; dedent (assumed identity on texts starting at column 0); field-list reuse hashes the list's name only (known limitation, DESIGN 8 #18).",
    technique="contract-based: template postcondition on the three hash-building handlers decided by abstract evaluation of the real AST (no SMT), emit-site obligations, and a z3-discharged postcondition of Client.send_message",
    assumptions=ENV_ASSUMPTIONS[:1] + CLIENT_ASSUMPTIONS,
    explanation="hash = sha256(template(name, id, ordered fields)); template depends on and only on those elements and parses uniquely; back ends print the same 8 hex digits; send_message stamps it")

PLAN["C17"] = dict(
    functions=LOGGER_C17, sidecars=LOGGER_SIDECARS, extra=[_rgcheck.check], level="other",
    level_text="PARTIAL: the two-event hand-shake between the recording thread and the writer thread, and the staging of buffers; file formats are not decided. Thread-modular (rely/guarantee) "
               "contracts: the writer's steps are read off the real body of DataCollection.write (write pass, then its Event operations in program order) as a transition relation over "
               "(write_to_disk, write_finished, writer pc, 'staged and unwritten'); its reflexive-transitive closure is applied as interference before EVERY shared access of the recording "
               "thread (Event operations, stage_for_write / stop / close / start of a data set) while DataCollection.start / update / trigger_write / stop / pause / resume and DataSet.stage_for_write / write / stop are verified from "
               "their real source by pyvc/z3. Obligations: the recording thread touches a data set's writer-side state only in states from which no writer step sequence enters the write pass; it "
               "stages only over an empty (written) write buffer; conservation view per data set - accepted == handed-to-formatter ++ write buffer ++ read buffer, with `accepted` growing by exactly "
               "the messages whose type the data set selects while recording and not paused, in arrival order - is preserved by every function and by the writer's pass; after stop() every accepted "
               "message has been handed to the formatter (once, in order); update / trigger_write / stop re-establish the protocol invariant and every writer step preserves it (z3, finite). For every "
               "interleaving at the granularity of the Event operations, any number of data sets, any message sequence and deadline placement. NOT decided: what the formatters write for a message "
               "(raw / json / quicklogger encodings), the quicklogger reader, DataFormatter.write's writelines (assumed: one record per message in list order), subdivide(); start() assumes the writer has finished the Event operations of its last pass.",
    technique="contract-based, thread-modular: rely = closure of the writer's extracted step relation, applied as a contract prelude at every shared access; VCs from the real source by pyvc, discharged by z3",
    assumptions=ENV_ASSUMPTIONS[:1],
    explanation="hand-shake ownership + buffer staging for all interleavings; formatters, file contents, the quicklogger reader, pause/resume timing and restart-after-stop are not decided")

def _engine_extra(keys, sidecars, tag):
    """run a few more functions under other sidecars and fold their obligations into the property's count"""
    def hook(tier="quick", seed=0, repo="/repo"):
        from pyvc.driver import run_functions
        from pyvc.check import strip_line
        res = dict(obligations=0, discharged=0, open={}, discharged_names=[], samples=[], by_backend={}, seconds=0.0, crashes=[], undecided=[], bounded=[], assumptions=[])
        for r in run_functions(keys, sidecars=sidecars, tier=tier, seed=seed, repo=repo, log=lambda m: None, only_tag=tag):
            if r.get("error"):
                res["crashes"].append(f"{r['function']}: {r['error'][:300]}")
                continue
            if r.get("unsupported"):
                res["undecided"].append(f"{r['function']}: {r['unsupported']}")
                continue
            res["assumptions"] += [f"assumed contract: {a}" for a in r.get("assumed", [])] + [f"library model: {u}" for u in r.get("lib", [])]
            per = {}
            for ob in r["obligations"]:
                if ob.get("backend") == "other-property" or (ob.get("tags") and tag not in ob["tags"]):
                    continue
                per.setdefault(strip_line(ob["name"]), []).append(ob)
            for nm, obs in per.items():
                res["obligations"] += 1
                res["seconds"] += sum(o["seconds"] for o in obs)
                if all(o["status"] == "discharged" for o in obs):
                    res["discharged"] += 1
                    res["discharged_names"].append(nm)
                    for o in obs:
                        res["by_backend"][o["backend"] or "?"] = res["by_backend"].get(o["backend"] or "?", 0) + 1
                else:
                    b = [o for o in obs if o["status"] != "discharged"][0]
                    res["open"][nm] = dict(kind=b["kind"], status=b["status"], text=b["text"], reason=b.get("reason"), candidates=[], lineno=b.get("lineno"), path=b.get("path"))
        return res
    return hook


from .validator_contracts import V as _V
PLAN["C03"]["extra"] = [_engine_extra([_V + "String.__get__"], ["contracts.validator_contracts"], "C03")]
PLAN["C03"]["assumptions"] = PLAN["C03"]["assumptions"] + ["the manager reads string fields of client messages through validators.String.__get__, which is verified here to return ASCII text or raise "
                                                          "UnicodeDecodeError (the manager's library model of the read relies on exactly that)"]

NOT_APPLICABLE = {
    "C10": "not decided: the round trip goes through json.dumps/json.loads, ctypes reflection over _fields_ of arbitrary generated classes and float repr; the string/float theories needed (float <-> shortest-repr "
           "text, JSON escaping) are outside what the z3/cvc5 encodings built here can discharge, and a bounded CrossHair run would not count as proved. The defect found by reading (stale bytes after "
           "NUL in char arrays) was repaired under C09/C10 (see known_findings.json).",
    "C15": "not decided: the property is about generated C / JavaScript / MATLAB / Python text loading in its language; it needs reader models of four target languages (DESIGN 2.5 Emit domain), not built. "
           "Known emission-order defects (alias of struct, struct with message field, JS Array.fill) were reproduced by hand in phase 1 and are described in DESIGN 8; they are not checked mechanically.",
}
for _p in PLAN.values():
    _p.setdefault("level", "proof")
    _p.setdefault("trusted_base", ["pyvc (ast -> VC generator written for this task)", "z3 5.1.0", "cvc5 1.0.3", "sidecar contracts in /verif/contracts"])
