"""which functions carry which property (the F lists of DESIGN §5)"""
M = "pyrtma.manager:"
MANAGER_ALL = [M + "Module.send_message"] + [M + "MessageManager." + f for f in (
    "add_subscription", "remove_subscription", "remove_module", "send_client_close", "send_client_info", "send_message",
    "forward_message", "send_failed_message", "send_to_loggers", "send_ack", "assign_module_id", "connect_module",
    "read_message", "process_message", "send_timing_message", "send_traffic", "send_active_clients", "run")]
C = "pyrtma.client:"
CLIENT_SIDECARS = ["contracts.manager_model", "contracts.manager_contracts", "contracts.client_contracts"]
CLIENT_C02 = [C + "Client." + f for f in ("_subscription_control", "subscribe", "unsubscribe", "pause_subscription", "resume_subscription",
              "unsubscribe_from_all", "pause_all_subscriptions", "resume_all_subscriptions", "subscription_context", "paused_subscription_context", "send_message", "_sendall", "disconnect")]
CLIENT_C08 = [C + "Client." + f for f in ("_read_message", "read_message", "_recv_discard", "_wait_for_acknowledgement", "_sendall", "send_message")]
CLIENT_C06 = [C + "Client." + f for f in ("_connect_helper", "connect", "send_module_ready", "send_message", "_wait_for_acknowledgement", "disconnect")] + [C + "client_context"]
