"""Contracts for pyrtma/validators.py (C09): sound, complete, atomic field validation.

The validators take values of any python type; each function is verified once per *kind* of value
(contract variants `#int`, `#float`, `#str`, ...), which together cover the tagged union of
DESIGN 5 (C09)."""
from pyvc.spec import Registry

V = "pyrtma.validators:"
PAIRS = [(-(2 ** 7), 2 ** 7 - 1), (-(2 ** 15), 2 ** 15 - 1), (-(2 ** 31), 2 ** 31 - 1), (-(2 ** 63), 2 ** 63 - 1),
         (0, 2 ** 8 - 1), (0, 2 ** 16 - 1), (0, 2 ** 32 - 1), (0, 2 ** 64 - 1)]


def install(R: Registry):
    R.ghost_global("_VALIDATION_ENABLED", "CtxVar[Bool]")
    R.declare_class("CFloatBox", external=True, fields=dict(value="Float"))
    R.declare_class("MsgObj", external=True, fields={})
    R.declare_class("IntValidatorBase", fields=dict(_min="Int", _max="Int", _ctype="Cls", _private_name="Str", _size="Int", _unsigned="Bool"))
    R.declare_class("FloatValidatorBase", fields=dict(_ctype="Cls", _private_name="Str"))
    R.declare_class("Byte", fields=dict(_min="Int", _max="Int", _ctype="Cls", _private_name="Str"))
    R.declare_class("String", fields=dict(len="Int", _ctype="Cls", _private_name="Str"))
    R.declare_class("Char", bases=["String"], fields={})
    CLS = " or ".join(f"(self._min == {lo} and self._max == {hi})" for lo, hi in PAIRS)
    R.define("int_class", "self: IntValidatorBase", CLS, "the eight integer validator classes: Int8..Int64, Uint8..Uint64 (class constants _min/_max)")
    R.define("in_dom", "self: IntValidatorBase, v: Int", "self._min <= v and v <= self._max")

    # ------------------------------------------------------------------ disable_message_validation
    R.contract(V + "disable_message_validation", tags="C09", params=dict(ignore="Bool"), yield_raises=True,
               modifies=["glob:_VALIDATION_ENABLED"],
               ensures=[("C09", "_VALIDATION_ENABLED == old(_VALIDATION_ENABLED)", "validation is back in force when the block is left normally")],
               raises={"Exception": [("C09", "_VALIDATION_ENABLED == old(_VALIDATION_ENABLED)",
                                      "validation is back in force when the block is left through an exception")]})

    # ------------------------------------------------------------------ integers
    R.contract(V + "IntValidatorBase.validate_one#int", tags="C09", params=dict(value="Int"), requires=["int_class(self)"],
               ensures=[("C09", "in_dom(self, value)", "returns normally only for values in range")],
               raises={"ValueError": [("C09", "not in_dom(self, value)", "raises only for values out of range")]})
    R.contract(V + "IntValidatorBase.validate_one#bool", tags="C09", params=dict(value="Bool"), requires=["int_class(self)"],
               ensures=[("C09", "True")], raises={})
    for kind, ty in (("float", "Float"), ("str", "Str"), ("none", "None")):
        R.contract(V + f"IntValidatorBase.validate_one#{kind}", tags="C09", params=dict(value=ty), requires=["int_class(self)"],
                   ensures=[("C09", "False", "a non-integer is never accepted by an integer field")],
                   raises={"TypeError": [("C09", "True")]})
    R.define("all_in", "self: IntValidatorBase, xs: List[Int]", "forall('i:Int', implies(0 <= i and i < len(xs), in_dom(self, xs[i])))")
    R.contract(V + "IntValidatorBase.validate_many#intlist", tags="C09", params=dict(value="List[Int]"), requires=["int_class(self)", "len(value) >= 0"],
               ensures=[("C09", "all_in(self, value) and len(value) > 0", "accepted only if every element is in range, wherever it occurs")],
               raises={"ValueError": [("C09", "not all_in(self, value) or len(value) == 0", "refused only if some element is out of range (or the sequence is empty)")]})
    R.contract(V + "IntValidatorBase.validate_many#ctarray", tags="C09", params=dict(value="CArray[Int, 4]"), requires=["int_class(self)", "self._size == 1 or self._size == 2 or self._size == 4 or self._size == 8"],
               ensures=[("C09", "forall('i:Int', implies(0 <= i and i < 4, in_dom(self, value[i])))", "a ctypes array (of any element type) is accepted only if every element is in range (bounded: length 4)")],
               raises={"ValueError": [("C09", "exists('i:Int', 0 <= i and i < 4 and not in_dom(self, value[i]))")]})
    R.contract(V + "IntValidatorBase.__set__#int", tags="C09", params=dict(obj="MsgObj", value="Int"),
               requires=["int_class(self)", "_VALIDATION_ENABLED"],
               modifies=["$dyn.int"],
               ensures=[("C09", "in_dom(self, value) and dynint(obj, self._private_name) == value", "on success the value read back is the value assigned")],
               raises={"ValueError": [("C09", "not in_dom(self, value)", "and on refusal nothing was written (frame)")]})

    # lists of python values of ANY type (ints, floats and other objects mixed): refused unless every element is an int in range
    R.define("pv_in_dom", "self: IntValidatorBase, v: PyVal", "pv_kind(v) == 0 and self._min <= pv_int(v) and pv_int(v) <= self._max")
    R.contract(V + "IntValidatorBase.validate_many#pylist", tags="C09", params=dict(value="List[PyVal]"),
               requires=["int_class(self)", "len(value) >= 1", "forall('i:Int', implies(0 <= i and i < len(value), pv_kind(value[i]) == 0 or pv_kind(value[i]) == 1 or pv_kind(value[i]) == 2))"],
               ensures=[("C09", "forall('i:Int', implies(0 <= i and i < len(value), pv_in_dom(self, value[i])))",
                         "a list of arbitrary python values is accepted only if EVERY element is an int in range (mixed lists included)")],
               raises={"TypeError": [("C09", "exists('i:Int', 0 <= i and i < len(value) and pv_kind(value[i]) != 0)")],
                       "ValueError": [("C09", "exists('i:Int', 0 <= i and i < len(value) and not pv_in_dom(self, value[i]))")]})
    # ------------------------------------------------------------------ floats
    R.contract(V + "FloatValidatorBase.validate_one#float32", tags="C09", params=dict(value="Float"), ctype_model="float32",
               ensures=[("C09", "not isinf(fp32(value))", "accepted only if the nearest binary32 value is finite (or NaN)")],
               raises={"ValueError": [("C09", "isinf(fp32(value))", "refused only if the value overflows to infinity")]})
    R.contract(V + "FloatValidatorBase.validate_one#float64", tags="C09", params=dict(value="Float"), ctype_model="float64",
               ensures=[("C09", "not isinf(value)")], raises={"ValueError": [("C09", "isinf(value)")]})
    for kind, ty in (("str", "Str"), ("none", "None")):
        R.contract(V + f"FloatValidatorBase.validate_one#{kind}", tags="C09", params=dict(value=ty), ctype_model="float32",
                   ensures=[("C09", "False")], raises={"TypeError": [("C09", "True")]})
    R.contract(V + "FloatValidatorBase.validate_one#int", tags="C09", params=dict(value="Int"), ctype_model="float32",
                requires=["-(2**200) <= value and value <= 2**200"],
                ensures=[("C09", "not isinf(fp32(value))")], raises={"ValueError": [("C09", "isinf(fp32(value))")]})
    R.contract(V + "FloatValidatorBase.validate_many#floatlist32", tags="C09", params=dict(value="List[Float]"), ctype_model="float32",
               requires=["len(value) >= 0"],
               ensures=[("C09", "forall('i:Int', implies(0 <= i and i < len(value), not isinf(fp32(value[i]))))", "accepted only if no element overflows - also next to a NaN")],
               raises={"ValueError": [("C09", "exists('i:Int', 0 <= i and i < len(value) and isinf(fp32(value[i])))", "refused only if some element overflows")]})
    R.contract(V + "FloatValidatorBase.validate_many#floatlist64", tags="C09", params=dict(value="List[Float]"), ctype_model="float64",
               requires=["len(value) >= 0"],
               ensures=[("C09", "forall('i:Int', implies(0 <= i and i < len(value), not isinf(value[i])))")],
               raises={"ValueError": [("C09", "exists('i:Int', 0 <= i and i < len(value) and isinf(value[i]))")]})
    PV_REQ = ["len(value) >= 0", "forall('i:Int', implies(0 <= i and i < len(value), (pv_kind(value[i]) == 0 or pv_kind(value[i]) == 1 or pv_kind(value[i]) == 2) and "
                                 "-(2**100) <= pv_int(value[i]) and pv_int(value[i]) <= 2**100))"]
    for bits, ov in (("32", "isinf(fp32(pv_float(value[i])))"), ("64", "isinf(pv_float(value[i]))")):
        R.contract(V + f"FloatValidatorBase.validate_many#pylist{bits}", tags="C09", params=dict(value="List[PyVal]"), ctype_model="float" + bits, requires=PV_REQ,
                   ensures=[("C09", f"forall('i:Int', implies(0 <= i and i < len(value), pv_kind(value[i]) != 2 and implies(pv_kind(value[i]) == 1, not {ov})))",
                             "a list of arbitrary python values is accepted only if EVERY element is a number that does not overflow (ints up to 2^100 never do)")],
                   raises={"TypeError": [("C09", "exists('i:Int', 0 <= i and i < len(value) and pv_kind(value[i]) == 2)")],
                           "ValueError": [("C09", f"exists('i:Int', 0 <= i and i < len(value) and pv_kind(value[i]) == 1 and {ov})")]})
    R.contract(V + "FloatValidatorBase.__set__#float32", tags="C09", params=dict(obj="MsgObj", value="Float"), ctype_model="float32",
               requires=["_VALIDATION_ENABLED"], modifies=["$dyn.float"],
               ensures=[("C09", "not isinf(fp32(value)) and fpeq(dynfloat(obj, self._private_name), value)", "the stored python value is the value assigned (ctypes rounds it to the nearest finite binary32 on the way into the buffer)")],
               raises={"ValueError": [("C09", "isinf(fp32(value))")]})

    # ------------------------------------------------------------------ strings / bytes
    R.contract(V + "String.validate_one#str", tags="C09", params=dict(value="Str"), requires=["self.len >= 2"],
               ensures=[("C09", "len(value) <= self.len - 1 and isascii(value)", "accepted only if it fits with its terminating NUL and is ASCII")],
               raises={"ValueError": [("C09", "len(value) > self.len - 1")], "TypeError": [("C09", "len(value) <= self.len - 1 and not isascii(value)")]})
    for kind, ty in (("int", "Int"), ("none", "None"), ("float", "Float")):
        R.contract(V + f"String.validate_one#{kind}", tags="C09", params=dict(value=ty), requires=["self.len >= 2"],
                   ensures=[("C09", "False")], raises={"TypeError": [("C09", "True")]})
    R.contract(V + "Byte.validate_many#pylist", tags="C09", params=dict(value="List[PyVal]"),
               requires=["self._min == 0 and self._max == 255", "len(value) >= 1",
                         "forall('i:Int', implies(0 <= i and i < len(value), pv_kind(value[i]) == 0 or pv_kind(value[i]) == 1 or pv_kind(value[i]) == 2))"],
               ensures=[("C09", "forall('i:Int', implies(0 <= i and i < len(value), pv_kind(value[i]) == 0 and 0 <= pv_int(value[i]) and pv_int(value[i]) <= 255))",
                         "a list of arbitrary python values is accepted as byte-array content only if EVERY element is an int in 0..255")],
               raises={"TypeError": [("C09", "exists('i:Int', 0 <= i and i < len(value) and pv_kind(value[i]) != 0)")],
                       "ValueError": [("C09", "exists('i:Int', 0 <= i and i < len(value) and not (pv_kind(value[i]) == 0 and 0 <= pv_int(value[i]) and pv_int(value[i]) <= 255))")]})
    R.contract(V + "String.__get__", tags="C03 C09", params=dict(obj="MsgObj", objtype="None"), returns="Str", ctype_model="string",
               ensures=[("C03 C09", "isascii(result)", "a string field read back is ASCII: the manager relies on this when it copies a client's name into its own messages")],
               raises={"UnicodeDecodeError": []})
    R.contract(V + "Byte.validate_one#int", tags="C09", params=dict(value="Int"), requires=["self._min == 0 and self._max == 255"],
               ensures=[("C09", "0 <= value and value <= 255")], raises={"ValueError": [("C09", "value < 0 or value > 255")]})
    for kind, ty in (("float", "Float"), ("str", "Str"), ("none", "None")):
        R.contract(V + f"Byte.validate_one#{kind}", tags="C09", params=dict(value=ty), requires=["self._min == 0 and self._max == 255"],
                   ensures=[("C09", "False")], raises={"TypeError": [("C09", "True")]})


VALIDATOR_TARGETS = [V + k for k in (
    "disable_message_validation",
    "IntValidatorBase.validate_one#int", "IntValidatorBase.validate_one#bool", "IntValidatorBase.validate_one#float", "IntValidatorBase.validate_one#str",
    "IntValidatorBase.validate_one#none", "IntValidatorBase.validate_many#intlist", "IntValidatorBase.validate_many#ctarray", "IntValidatorBase.validate_many#pylist", "IntValidatorBase.__set__#int",
    "FloatValidatorBase.validate_one#float32", "FloatValidatorBase.validate_one#float64", "FloatValidatorBase.validate_one#str", "FloatValidatorBase.validate_one#none",
    "FloatValidatorBase.validate_one#int", "FloatValidatorBase.validate_many#floatlist32", "FloatValidatorBase.validate_many#floatlist64", "FloatValidatorBase.validate_many#pylist64", "FloatValidatorBase.__set__#float32",
    "String.validate_one#str", "String.validate_one#int", "String.validate_one#none", "String.validate_one#float", "String.__get__",
    "Byte.validate_one#int", "Byte.validate_one#float", "Byte.validate_one#str", "Byte.validate_one#none", "Byte.validate_many#pylist")]
