"""pyvc -- contract-based deductive verification of python functions read from /repo (see DESIGN.md §2)."""
