"""pyvc.bindcheck -- applicability obligations for library models the sidecars declare.

C09: contracts/validator_contracts.py declares `_VALIDATION_ENABLED` as CtxVar[Bool]: every validator contract requires "validation enabled" and
disable_message_validation's contract restores it.  Those contracts speak about ONE execution context; they carry the property's clause "validation
is in force whenever execution is not inside an explicit disable block" to other threads / tasks only if the flag is context-local state, i.e. the
precondition is stable under what other contexts do (rely: another context entering or leaving a disable block does not change this context's flag).
Obligation (decided on the real AST of validators.py):
  (B1) the module binds _VALIDATION_ENABLED to contextvars.ContextVar(..., default=True) - context-local, default "validation on";
  (B2) nothing else in the module rebinds the name (no `global _VALIDATION_ENABLED` + assignment, no second module-level binding).
A different binding whose class is defined in the module and keeps the flag in ordinary attributes is process-wide state: refuted, and replayed with
two threads on the real code.  Anything else is undecided.
"""
from __future__ import annotations
import ast, os, time

REPLAY = r'''
import os, sys, threading
sys.path.insert(0, os.path.join(sys.argv[1], "src"))
import pyrtma
from pyrtma.validators import disable_message_validation
from pyrtma.message import get_msg_cls
import pyrtma.core_defs as cd
inside, done = threading.Event(), threading.Event()
def other():
    with disable_message_validation():
        inside.set(); done.wait(20)
t = threading.Thread(target=other, daemon=True); t.start(); inside.wait(20)
m = cd.MDF_CONNECT_V2() if hasattr(cd, "MDF_CONNECT_V2") else None
bad = []
if m is not None:
    before = bytes(m)
    try:
        m.mod_id = 70000          # int16 field: out of range
        bad.append(f"CONNECT_V2.mod_id = 70000 accepted in a thread that is outside every disable block (read back {m.mod_id}) while another thread is inside one")
    except Exception:
        if bytes(m) != before:
            bad.append("refused but bytes changed")
done.set(); t.join(20)
for b in bad:
    print("C09-REPLAY-VIOLATION:", b)
print("C09-REPLAY-DONE")
os._exit(0)
'''


def check(tier="quick", seed=0, repo="/repo"):
    t0 = time.time()
    res = dict(obligations=0, discharged=0, open={}, discharged_names=[], samples=[], by_backend={}, seconds=0.0, crashes=[], undecided=[], bounded=[],
               assumptions=["contextvars.ContextVar: get() returns the value set in the current context (thread / task), default otherwise; set()/reset(token) act on the current context only",
                            "the applicability of the CtxVar library model to validators._VALIDATION_ENABLED is decided syntactically on the module's bindings (pyvc/bindcheck.py), not by SMT"])
    name = "C09/_VALIDATION_ENABLED/is-context-local-and-on-by-default"
    res["obligations"] = 1
    try:
        tree = ast.parse(open(os.path.join(repo, "src", "pyrtma", "validators.py")).read())
    except (OSError, SyntaxError) as ex:
        res["crashes"].append(f"validators.py: {ex}")
        return res
    V = "_VALIDATION_ENABLED"
    binds = []
    for n in tree.body:
        if isinstance(n, ast.Assign) and any(isinstance(t, ast.Name) and t.id == V for t in n.targets):
            binds.append(n.value)
        elif isinstance(n, ast.AnnAssign) and isinstance(n.target, ast.Name) and n.target.id == V and n.value is not None:
            binds.append(n.value)
    rebinding = [n.lineno for n in ast.walk(tree) if isinstance(n, ast.Global) and V in n.names]
    ctx_names = {"ContextVar"}
    for n in tree.body:
        if isinstance(n, ast.ImportFrom) and n.module == "contextvars":
            for a in n.names:
                if a.name == "ContextVar":
                    ctx_names.add(a.asname or a.name)
    local_classes = {n.name for n in tree.body if isinstance(n, ast.ClassDef)}
    local_classes |= {n.name for n in tree.body if isinstance(n, ast.FunctionDef)}

    def refuted(text):
        info = dict(kind="requires-stability", status="refuted", reason="binding", candidates=[], text=text)
        import subprocess
        try:
            p = subprocess.run(["/venv/bin/python", "-c", REPLAY, repo], capture_output=True, text=True, timeout=120)
            lines = [l for l in p.stdout.splitlines() if l.startswith("C09-REPLAY-VIOLATION")]
            if lines:
                info.update(reproduced=True, replay_how="thread A stays inside `with disable_message_validation()`; the main thread, outside every block, assigns 70000 to an int16 field",
                            verifier_output=text)
                info["text"] += "\nreplayed on the real code: " + lines[0]
        except Exception:
            pass
        res["open"][name] = info

    if len(binds) != 1 or rebinding:
        if rebinding or len(binds) > 1:
            refuted(f"{V} is rebound ({len(binds)} module-level bindings, `global {V}` at lines {rebinding}): the flag is process-wide state, so the validators' precondition "
                    "'validation enabled outside a disable block' is not stable under another thread's disable block")
        else:
            res["undecided"].append(f"{name}: no module-level binding of {V} found")
    else:
        v = binds[0]
        fn = ast.unparse(v.func) if isinstance(v, ast.Call) else None
        if fn in ctx_names or fn == "contextvars.ContextVar":
            dflt = next((k.value for k in v.keywords if k.arg == "default"), None)
            if isinstance(dflt, ast.Constant) and dflt.value is True:
                res["discharged"] = 1
                res["discharged_names"].append(name)
                res["by_backend"]["dataflow"] = 1
                res["samples"].append(dict(obligation=name, goal=f"{V} = ContextVar(..., default=True): the flag every validator consults is context-local and on by default, so the "
                                                                 "verified single-context contracts hold in every thread", backend="dataflow"))
            else:
                refuted(f"{V} = {ast.unparse(v)}: the default is not True - a thread or task that never entered a disable block does not start with validation in force")
        elif fn is not None and fn.split(".")[0] in local_classes:
            refuted(f"{V} = {ast.unparse(v)}: an object of a class defined in validators.py, not a contextvars.ContextVar - the flag is shared by every thread of the process, so the "
                    "validators' precondition 'validation enabled outside a disable block' is not stable under another thread's disable block (and overlapping blocks can leave it off)")
        else:
            res["undecided"].append(f"{name}: {V} = {ast.unparse(v)} - not a binding this analysis knows")
    res["seconds"] = round(time.time() - t0, 2)
    return res
