"""pyvc.calls -- calls: by contract (modular), inline (only where the sidecar says so),
library models, constructors, spec forms."""
from __future__ import annotations
import ast
import z3
from .core import *
from .engine import Unsupported
from .spec import Contract


class CallMixin:
    SPEC_FORMS = {"old", "forall", "exists", "implies", "ite", "fresh", "at_loop", "allocated", "iff",
                  "typeis", "let", "store", "select", "empty", "setadd", "setdel", "dom", "wrap_int", "cast", "pos", "cut", "dtype", "classid", "store_all_zero", "dynint", "dynfloat", "fp32", "isinf", "isnan", "fpeq", "identity_map", "shift_insert", "shift_up"}

    def ev_Call(self, e, st):
        f = e.func
        if isinstance(f, ast.Name) and f.id == "lemma" and self.ghost_mode and not self.spec_mode:
            # ghost statement lemma(P): P becomes an obligation here and may be used afterwards (a cut)
            g = self.truth(self.sv(e.args[0], st))
            self._lemma_n = getattr(self, "_lemma_n", 0) + 1
            label = e.args[1].value if len(e.args) > 1 and isinstance(e.args[1], ast.Constant) else "lemma"
            saved = self.ghost_mode
            self.ghost_mode = 0
            try:
                self.oblige(st, f"{self.func_key}/lemma[{label}]", "lemma", g, getattr(self, "_hook_node", None), self.cur_tags(), ast.unparse(e.args[0])[:200])
            finally:
                self.ghost_mode = saved
            st.assume(g)
            return [(st, self.const_val(None))]
        if isinstance(f, ast.Name):
            if f.id in self.SPEC_FORMS and (self.spec_mode or self.ghost_mode):
                return [(st, self.spec_form(f.id, e, st))]
            if f.id in self.reg.specfuncs and (self.spec_mode or self.ghost_mode) and f.id not in st.frames[-1]:
                args = [self.sv(a, st) for a in e.args]
                return [(st, self.spec_call(f.id, args, st))]
            if f.id in self.lib.ufuncs and (self.spec_mode or self.ghost_mode) and f.id not in st.frames[-1]:
                args = [self.sv(a, st) for a in e.args]
                fn, rt = self.lib.ufuncs[f.id]
                return [(st, Val(rt, fn(*[a.z for a in args])))]
        out = []
        for s, fv in self.ev(f, st):
            if isinstance(fv, Exc):
                out.append((s, fv))
                continue
            # arguments
            if any(isinstance(a, ast.Starred) for a in e.args) or any(k.arg is None for k in e.keywords):
                raise Unsupported("*args / **kwargs at a call site", e, self.path)
            # generator-expression arguments are handed over unevaluated to the library model
            lazy = [a for a in e.args if isinstance(a, (ast.GeneratorExp,))]
            exprs = [a for a in e.args if not isinstance(a, ast.GeneratorExp)] + [k.value for k in e.keywords]
            if lazy and fv.t[0] == "builtin":
                out.extend(self.lib.call_builtin_lazy(fv.conc, e, s))
                continue
            for s2, vals in self.ev_seq(exprs, s):
                if isinstance(vals, Exc):
                    out.append((s2, vals))
                    continue
                npos = len(e.args)
                args = vals[:npos]
                kwargs = {k.arg: v for k, v in zip(e.keywords, vals[npos:])}
                out.extend(self.dispatch_call(fv, args, kwargs, s2, e))
        return out

    ghost_mode = 0

    def dispatch_call(self, fv: Val, args, kwargs, st, node):
        k = fv.t[0]
        if k == "builtin" and self.contract is not None and not self.spec_mode and not self.ghost_mode and len(st.frames) == 1:
            hook = self.contract.ghost_after.get(f"builtin:{fv.conc}")
            if hook:
                out = []
                for s2, r in self.lib.call_builtin(fv.conc, args, kwargs, st, node):
                    if isinstance(r, Exc):
                        out.append((s2, r))
                        continue
                    s2.locals["_ret"] = r
                    for s3 in self.exec_ghost(hook, s2):
                        s3.locals.pop("_ret", None)
                        out.append((s3, r))
                return out
        if k == "boundmethod":
            base, name = fv.z
            bk = base.t[0]
            if bk == "symcls":
                return self.lib.call_method(base, name, args, kwargs, st, node, fv.origin)
            if bk in ("ref", "exc"):
                return self.call_member(base, base.t[1] if bk == "ref" else "Exception", name, args, kwargs, st, node)
            return self.lib.call_method(base, name, args, kwargs, st, node, fv.origin)
        if k == "builtin":
            return self.lib.call_builtin(fv.conc, args, kwargs, st, node)
        if k == "modattr":
            return self.lib.call_modattr(fv.conc, args, kwargs, st, node)
        if k == "cls":
            return self.lib.instantiate(fv.conc, args, kwargs, st, node)
        if k == "func":
            return self.call_function(fv.conc, args, kwargs, st, node)
        if k == "symcls":
            return self.lib.instantiate_symbolic(fv, args, kwargs, st, node)
        raise Unsupported(f"call of a {tstr(fv.t)} value", node, self.path)

    # ------------------------------------------------------------------ methods
    def call_member(self, base: Val, cls: str, name: str, args, kwargs, st, node, is_property=False):
        for c in self.class_chain(cls):
            con = self.reg.find_contract(f"{c}.{name}")
            if con is None and f"{c}.{name}" in self.reg.variants and f"{c}.{name}" not in self.reg.inline:
                con = self.pick_variant(self.reg.variants[f"{c}.{name}"], args, node)
            if con is not None:
                fm = self.src.find_method(cls, name)
                return self.apply_contract(con, base, args, kwargs, st, node, fm)
            if f"{c}.{name}" in self.reg.inline:
                fm = self.src.find_method(c, name)
                if fm is None:
                    raise Unsupported(f"inline target {c}.{name} not found in source", node, self.path)
                return self.inline_call(fm, base, args, kwargs, st, node)
            # stop at the first class that defines the method in source
            fm = self.src.find_method(c, name)
            if fm is not None and fm[1] == c:
                break
        # a method of the very class whose function is being verified, defined in the source but unknown to the sidecars: a helper extracted by a
        # refactoring.  Its body is real code, so it is verified in place (inlined) rather than giving up; the evidence lists it.
        fm = self.src.find_method(cls, name)
        own_cls = self.func_key.split(":")[-1].rsplit(".", 1)[0] if getattr(self, "func_key", None) and "." in self.func_key.split(":")[-1] else None
        if fm is not None and own_cls is not None and fm[1] == own_cls and not is_property:
            self.lib.use(f"helper {cls}.{name} has no contract: verified in place (inlined) in its caller")
            return self.inline_call(fm, base, args, kwargs, st, node)
        raise Unsupported(f"call to {cls}.{name}: no contract and not marked inline", node, self.path)

    def pick_variant(self, variants, args, node):
        """the contract variant whose parameter types fit the static types of the arguments"""
        for con in variants:
            ptypes = [t for n, t in con.params.items() if n != "self"]
            ok = len(ptypes) >= len(args)
            for a, t in zip(args, ptypes):
                if a.t == t or (a.t[0] == t[0] and a.t[0] in ("list", "set", "ref")) or (a.t[0] == "none" and t[0] == "none"):
                    continue
                ok = False
                break
            if ok:
                return con
        raise Unsupported(f"no contract variant of {variants[0].qualname} fits argument types {[tstr(a.t) for a in args]}", node, self.path)

    def call_function(self, key: str, args, kwargs, st, node):
        mn, fn = key.split(":")
        if fn == "_get_core_defs":
            self.lib.use("_get_core_defs(): type_id -> class for every MDF_ class of pyrtma.core_defs (read from the source of core_defs.py)")
            return [(st, Val(("concdict",), dict(self.src.message_classes("pyrtma.core_defs"))))]
        con = self.reg.contracts.get(key) or self.reg.find_contract(fn)
        m = self.src.modules[mn]
        if con is not None:
            return self.apply_contract(con, None, args, kwargs, st, node, (m, None, m.functions[fn]))
        if key in self.reg.inline or fn in self.reg.inline:
            return self.inline_call((m, None, m.functions[fn]), None, args, kwargs, st, node)
        raise Unsupported(f"call to {key}: no contract and not marked inline", node, self.path)

    # ------------------------------------------------------------------ parameter binding
    def bind_params(self, fdef, con: Contract | None, self_val, args, kwargs, callee_mod, node):
        env = {}
        if fdef is not None:
            a = fdef.args
            names = [x.arg for x in a.posonlyargs + a.args]
            defaults = [None] * (len(names) - len(a.defaults)) + list(a.defaults)
            pos = list(args)
            if self_val is not None:
                pos = [self_val] + pos
            if len(pos) > len(names):
                if a.vararg is None:
                    raise Unsupported(f"too many positional arguments for {fdef.name}", node, self.path)
                env[a.vararg.arg] = Val(("tuple",) + tuple(v.t for v in pos[len(names):]), tuple(pos[len(names):]))
                pos = pos[: len(names)]
            elif a.vararg is not None:
                env[a.vararg.arg] = Val(("tuple",), ())
            for n, v in zip(names, pos):
                env[n] = v
            kwnames = [x.arg for x in a.kwonlyargs]
            kwdefaults = dict(zip(kwnames, a.kw_defaults))
            for kname, v in kwargs.items():
                if kname in env:
                    raise Unsupported(f"duplicate argument {kname}", node, self.path)
                if kname not in names and kname not in kwnames:
                    raise Unsupported(f"unexpected keyword {kname} for {fdef.name}", node, self.path)
                env[kname] = v
            for n, d in list(zip(names, defaults)) + [(n, kwdefaults[n]) for n in kwnames]:
                if n not in env:
                    if d is None:
                        raise Unsupported(f"missing argument {n} for {fdef.name}", node, self.path)
                    try:
                        env[n] = self.const_val(self.src.eval_const(callee_mod, d))
                    except KeyError:
                        raise Unsupported(f"non-constant default for {n}", node, self.path)
        else:
            names = list(con.params)
            pos = list(args)
            if self_val is not None and names and names[0] == "self":
                pos = [self_val] + pos
            for n, v in zip(names, pos):
                env[n] = v
            for kname, v in kwargs.items():
                env[kname] = v
            for n in names:
                if n not in env:
                    d = getattr(con, "defaults", {}).get(n)
                    if d is None and n not in getattr(con, "defaults", {}):
                        raise Unsupported(f"missing argument {n} for {con.key}", node, self.path)
                    env[n] = self.const_val(d)
        if con is not None:
            for n, t in con.params.items():
                if n in env and t[0] == "list" and env[n].t[0] == "set" and getattr(self, "_bind_state", None) is not None:
                    env[n] = self.lib.enumerate_set(self._bind_state, env[n].z, env[n].t[1], "aslist")
                if n in env and n not in getattr(con, "untyped", ()):
                    env[n] = self.coerce(self.adapt_empty(env[n], t), t, node)
        return env

    # ------------------------------------------------------------------ contracts at call sites
    def havoc(self, st: State, con: Contract, env):
        for m in con.modifies:
            self.havoc_item(st, m, env)
        # the callee may allocate
        if not con.pure:
            na = z3.Const(fresh_name("alloc"), z3.ArraySort(self.S.Ref, z3.BoolSort()))
            r = z3.Const(fresh_name("r"), self.S.Ref)
            st.assume(z3.ForAll([r], z3.Implies(z3.Select(st.alloc, r), z3.Select(na, r))))
            st.alloc = na
            if st.written is not None:
                st.written.add(("alloc",))

    def havoc_item(self, st, item: str, env=None):
        if item.startswith("glob:"):
            name = item[5:]
            t = self.reg.globals[name]
            st.glob[name] = Val(t, z3.Const(fresh_name(f"G_{name}"), self.sort(t)))
            if st.written is not None:
                st.written.add(("glob", name))
            return
        cls, field = item.split(".")
        if cls.startswith("$"):
            ty = self.heap_types.get((cls, field)) or ("map", STR, {"int": INT, "float": FLOAT, "str": STR}[field])
            self.heap_arr(st, cls, field, ty)
            st.heap[(cls, field)] = z3.Const(fresh_name(f"H_{cls}.{field}"), z3.ArraySort(self.S.Ref, self.sort(ty)))
            if st.written is not None:
                st.written.add(("heap", cls, field))
            return
        if field == "*":
            d = self.class_decl(cls)
            for f in list(d.fields) + list(d.ghost):
                self.havoc_item(st, f"{cls}.{f}", env)
            return
        fd = self.field_decl(cls, field)
        if fd is None:
            raise Unsupported(f"modifies item {item}: unknown field")
        dcls, t, decl = fd
        keys = [(self.hkey(dcls, field, decl), t)]
        if getattr(decl, "ctypes", False) and decl.cfields[field][0] in ("string", "char"):
            keys.append(((keys[0][0][0], keys[0][0][1] + "$ascii"), BOOL))
        for (hc, hf), ty in keys:
            self.heap_arr(st, hc, hf, ty)
            st.heap[(hc, hf)] = z3.Const(fresh_name(f"H_{hc}.{hf}"), z3.ArraySort(self.S.Ref, self.sort(ty)))
            if st.written is not None:
                st.written.add(("heap", hc, hf))

    def apply_contract(self, con: Contract, self_val, args, kwargs, st: State, node, fm=None):
        self.calls_used.add(con.key)
        if con.external:
            self.assumed.add(con.key)
        fdef = fm[2] if fm else None
        cmod = fm[0] if fm else None
        if con.external and con.params:
            fdef = None
        if fdef is not None and self_val is not None and not getattr(self, "_in_guard", False):
            decos = [d.id if isinstance(d, ast.Name) else getattr(d, "attr", "") for d in fdef.decorator_list]
            if "requires_connection" in decos:
                out = []
                cz = self.truth(self.load_field(st, self_val, "_connected"))
                for s2, ok in self.split(st, cz):
                    if ok:
                        self._in_guard = True
                        try:
                            out.extend(self.apply_contract(con, self_val, args, kwargs, s2, node, fm))
                        finally:
                            self._in_guard = False
                    else:
                        out.append((s2, Exc("NotConnectedError", "requires_connection", getattr(node, "lineno", 0))))
                return out
        self._bind_state = st
        try:
            env = self.bind_params(fdef, con, self_val, args, kwargs, cmod, node)
        finally:
            self._bind_state = None
        if getattr(con, "prelude", None) and not self.spec_mode and not getattr(self, "_in_prelude", False):
            # interference point: the other thread may have taken any number of its steps before this shared access
            pcon = self.reg.contracts[con.prelude]
            self._in_prelude = True
            try:
                pouts = self.apply_contract(pcon, None, [], {}, st, node, None)
            finally:
                self._in_prelude = False
            results = []
            for ps, pr in pouts:
                if isinstance(pr, Exc):
                    results.append((ps, pr))
                    continue
                self._in_prelude = True       # the prelude is applied once per call
                try:
                    self._skip_prelude = True
                    results.extend(self._apply_after_prelude(con, self_val, args, kwargs, ps, node, fm))
                finally:
                    self._in_prelude = False
            return results
        if con.handler is not None:
            return con.handler(self, st, env, node)
        if getattr(con, "returns_expr", None) is not None:
            # pure getter defined by an expression over the (ghost) state: no fresh symbol, usable under binders
            sp0 = st.fork()
            sp0.frames = [dict(env)]
            v0 = self.sv(ast.parse(con.returns_expr, mode="eval").body, sp0)
            if getattr(con, "result_choices", None):
                v0.choices = list(con.result_choices)
            for cl in con.ensures:
                sp0.frames[-1]["result"] = v0
                st.assume(self.truth(self.sv(cl.tree, sp0))) if not self.spec_mode else None
            if v0.choices and not self.spec_mode and not self.discovery:
                # a value from a small set of constants (an alignment): one path per constant keeps the arithmetic linear
                outs = []
                for c in v0.choices:
                    if self.feasible(st, v0.z == c):
                        s2 = st.fork()
                        s2.assume(v0.z == c)
                        outs.append((s2, Val(INT, z3.IntVal(c), conc=c)))
                return outs
            return [(st, v0)]
        if con.ghost_entry:
            # ghost locals of the callee (e.g. its delivery id) are defined by its ghost entry code
            gs = st.fork()
            gs.frames = [dict(env)]
            gs.written = None
            saved_disc = self.discovery
            self.discovery += 1          # no obligations from ghost code at a call site
            try:
                for g2 in self.exec_ghost(con.ghost_entry, gs):
                    for kname, kval in g2.frames[-1].items():
                        if kname not in env:
                            env[kname] = kval
            finally:
                self.discovery = saved_disc
        for gname, gt in con.ghost_results.items():
            # ghost results of the callee (e.g. the enumeration it iterated): existentially quantified
            gv = self.fresh(gt, gname)
            if gt[0] == "list":
                gv.origin = ("enum", z3.Function(fresh_name(f"pos_{gname}"), self.sort(gt[1]), z3.IntSort()), None)
            env[gname] = gv
        # requires
        spec = st.fork()
        spec.frames = [dict(env)]
        spec.old = st          # only meaningful for ensures below; requires must not use old()
        rel = self.rel(node)
        for i, cl in enumerate(con.requires):
            g = self.truth(self.sv(cl.tree, spec))
            self.oblige(st, f"{self.func_key}/call:{con.qualname}/requires[{i}]@{rel}", "requires@callsite", g,
                        node, cl.tags or self.cur_tags(), f"{con.qualname} requires {cl.expr}")
            st.assume(g)
        pre = st.fork()
        results = []
        # normal outcome
        outcomes = [(None, con.ensures)] + [(k, v) for k, v in con.raises.items()]
        first = True
        for exc_cls, posts in outcomes:
            s = st.fork()
            self.havoc(s, con, env)
            sp = s.fork()
            sp.frames = [dict(env)]
            sp.old = pre
            res = None
            if exc_cls is None and con.returns is not None:
                res = self.fresh(con.returns, "ret")
                if getattr(con, "result_choices", None):
                    res.choices = list(con.result_choices)
                if con.returns[0] == "ref" and getattr(con, "returns_nonnull", True):
                    pass
                sp.frames[-1]["result"] = res
            ok = True
            for cl in posts:
                z = self.truth(self.sv(cl.tree, sp))
                s.assume(z)
            if not self.feasible(s):
                continue
            if exc_cls is None:
                hook = self.contract.ghost_after.get(con.qualname) if (self.contract and len(s.frames) == 1) else None
                if hook:
                    for s_h in self.exec_ghost(hook, s):
                        results.append((s_h, res if res is not None else self.const_val(None)))
                    continue
                results.append((s, res if res is not None else self.const_val(None)))
            else:
                results.append((s, Exc(exc_cls, f"from {con.qualname}", getattr(node, "lineno", 0))))
        return results

    def _apply_after_prelude(self, con, self_val, args, kwargs, st, node, fm):
        # _in_prelude is set by the caller, so the recursive call skips the prelude; nested calls made while evaluating this
        # contract are spec evaluations only (no code runs), so suppressing preludes during it is harmless
        return self.apply_contract(con, self_val, args, kwargs, st, node, fm)

    def cur_tags(self):
        return self.contract.tags if self.contract else ()

    # ------------------------------------------------------------------ inlining (explicit only)
    def inline_call(self, fm, self_val, args, kwargs, st: State, node, depth_key=None):
        m, cls, fdef = fm
        if getattr(self, "_inline_depth", 0) > 8:
            raise Unsupported(f"inline depth exceeded at {fdef.name}", node, self.path)
        env = self.bind_params(fdef, None, self_val, args, kwargs, m, node)
        try:      # the verified text of the caller includes this body: its hash becomes part of the caller's source identity
            if not hasattr(self, "inlined_src"):
                self.inlined_src = set()
            self.inlined_src.add(f"{cls or ''}.{fdef.name}:{m.sha1(fdef)}")
        except Exception:
            pass
        env["__module__"] = m
        st.frames.append(env)
        self._inline_depth = getattr(self, "_inline_depth", 0) + 1
        saved_mod = self.mod
        try:
            outs = self.exec_block(fdef.body, st)
        finally:
            self._inline_depth -= 1
        results = []
        for s, oc in outs:
            s.frames.pop()
            if oc[0] == "normal":
                results.append((s, self.const_val(None)))
            elif oc[0] == "return":
                results.append((s, oc[1] if oc[1] is not None else self.const_val(None)))
            elif oc[0] == "raise":
                results.append((s, oc[1]))
            else:
                raise Unsupported(f"{oc[0]} escaping an inlined function", node, self.path)
        return results

    # ------------------------------------------------------------------ spec forms
    def parse_binders(self, node):
        if not (isinstance(node, ast.Constant) and isinstance(node.value, str)):
            raise Unsupported("quantifier binder must be a string 'x:T y:U'", node, "spec")
        out = []
        for part in node.value.replace(",", " ").split():
            n, t = part.split(":")
            out.append((n, parse_type(t)))
        return out

    def spec_form(self, name, e, st) -> Val:
        a = e.args
        if name == "old":
            if st.old is None:
                raise Unsupported("old() without a pre-state", e, "spec")
            s = st.fork()
            s.heap, s.glob, s.alloc = dict(st.old.heap), dict(st.old.glob), st.old.alloc
            s.old = st.old.old
            # heap fields first touched after entry are unchanged symbols: share them back
            v = self.sv(a[0], s)
            for k2, arr in s.heap.items():
                if k2 not in st.old.heap:
                    st.old.heap[k2] = arr
                    if k2 not in st.heap:
                        st.heap[k2] = arr
            for k2, gv in s.glob.items():
                if k2 not in st.old.glob:
                    st.old.glob[k2] = gv
                    if k2 not in st.glob:
                        st.glob[k2] = gv
            return v
        if name == "at_loop":
            lbl = "loop"
            s0 = st.marks.get(lbl)
            if s0 is None:
                raise Unsupported("at_loop() outside a loop invariant", e, "spec")
            s = st.fork()
            s.heap, s.glob, s.alloc = dict(s0.heap), dict(s0.glob), s0.alloc
            fr = dict(s0.frames[-1])
            s.frames = [fr]
            return self.sv(a[0], s)
        if name in ("forall", "exists"):
            binders = self.parse_binders(a[0])
            s = st.fork()
            vs = []
            guards = []
            for n, t in binders:
                v = Val(t, z3.Const(fresh_name(n), self.sort(t)))
                s.frames[-1][n] = v
                vs.append(v.z)
                if t[0] == "ref" and self.S.scope is not None:
                    guards.append(self.is_instance_z(v.z, t[1]))
            body = self.truth(self.sv(a[1], s))
            if guards:
                gd = z3.And(*guards) if len(guards) > 1 else guards[0]
                body = z3.Implies(gd, body) if name == "forall" else z3.And(gd, body)
            pats = []
            for kw in e.keywords:
                if kw.arg == "pat":
                    elts = kw.value.elts if isinstance(kw.value, (ast.List, ast.Tuple)) else [kw.value]
                    for pe in elts:
                        if isinstance(pe, (ast.Tuple, ast.List)):
                            pats.append(z3.MultiPattern(*[self.sv(x, s).z for x in pe.elts]))
                        else:
                            pats.append(self.sv(pe, s).z)
            q = z3.ForAll if name == "forall" else z3.Exists
            return Val(BOOL, q(vs, body, patterns=pats) if pats else q(vs, body))
        if name == "implies":
            return Val(BOOL, z3.Implies(self.truth(self.sv(a[0], st)), self.truth(self.sv(a[1], st))))
        if name == "iff":
            return Val(BOOL, self.truth(self.sv(a[0], st)) == self.truth(self.sv(a[1], st)))
        if name == "ite":
            c = self.truth(self.sv(a[0], st))
            x, y = self.sv(a[1], st), self.sv(a[2], st)
            y = self.coerce(self.adapt_empty(y, x.t), x.t)
            return Val(x.t, z3.If(c, x.z, y.z))
        if name == "fresh":
            r = self.sv(a[0], st)
            base = st.old if st.old is not None else st
            return Val(BOOL, z3.And(r.z != self.S.null, z3.Not(z3.Select(base.alloc, r.z))))
        if name == "allocated":
            r = self.sv(a[0], st)
            return Val(BOOL, z3.Select(st.alloc, r.z))
        if name == "typeis":
            r = self.sv(a[0], st)
            cname = a[1].id if isinstance(a[1], ast.Name) else a[1].value
            return Val(BOOL, self.dtype_fn(r.z) == self.class_id(cname))
        if name == "store":
            m, k, v = self.sv(a[0], st), self.sv(a[1], st), self.sv(a[2], st)
            if m.t[0] == "map":
                return Val(m.t, z3.Store(m.z, self.coerce(k, m.t[1]).z, self.coerce(self.adapt_empty(v, m.t[2]), m.t[2]).z))
            if m.t[0] == "dict":
                dt = self.sort(m.t)
                kz = self.coerce(k, m.t[1]).z
                return Val(m.t, dt.mk(z3.Store(dt.dom(m.z), kz, True), z3.Store(dt.val(m.z), kz, self.coerce(self.adapt_empty(v, m.t[2]), m.t[2]).z)))
            if m.t[0] == "carray":
                return Val(m.t, z3.Store(m.z, self.coerce(k, INT).z, self.coerce(v, m.t[1]).z))
            raise Unsupported("store() on " + tstr(m.t), e, "spec")
        if name == "select":
            m, k = self.sv(a[0], st), self.sv(a[1], st)
            return self.subscript_get(m, k, st, e)[0][1]
        if name == "empty":
            return self.empty_set(parse_type(a[0].value))
        if name == "setadd":
            sset, x = self.sv(a[0], st), self.sv(a[1], st)
            return Val(sset.t, z3.Store(sset.z, self.coerce(x, sset.t[1]).z, True))
        if name == "setdel":
            sset, x = self.sv(a[0], st), self.sv(a[1], st)
            return Val(sset.t, z3.Store(sset.z, self.coerce(x, sset.t[1]).z, False))
        if name == "dom":
            d = self.sv(a[0], st)
            return Val(("set", d.t[1]), self.sort(d.t).dom(d.z))
        if name == "wrap_int":
            v = self.sv(a[0], st)
            bits = a[1].value
            signed = a[2].value if len(a) > 2 else True
            return Val(INT, self.lib.wrap(self.coerce(v, INT).z, dict(size=bits // 8, signed=signed)))
        if name in ("pos", "cut"):
            L = self.sv(a[0], st)
            if not (isinstance(L.origin, tuple) and L.origin[0] in ("enumparts", "enum")):
                raise Unsupported(f"{name}() of a list that is not an enumeration", e, "spec")
            if L.origin[0] == "enum":
                parts = [(L.origin[2], L.origin[1], z3.IntVal(0), self.list_len(L))]
            else:
                parts = L.origin[1]
            if name == "cut":
                return Val(INT, parts[a[1].value][2])
            x = self.sv(a[1], st)
            kpart = a[2].value if len(a) > 2 else 0
            return Val(INT, parts[kpart][1](self.coerce(x, L.t[1]).z))
        if name in ("dynint", "dynfloat"):
            o, nm = self.sv(a[0], st), self.sv(a[1], st)
            kind = "int" if name == "dynint" else "float"
            ty = INT if kind == "int" else FLOAT
            arr = self.heap_arr(st, "$dyn", kind, ("map", STR, ty))
            return Val(ty, z3.Select(z3.Select(arr, o.z), nm.z))
        if name == "fp32":
            v = self.coerce(self.sv(a[0], st), FLOAT)
            return Val(FLOAT, z3.fpToFP(z3.RNE(), z3.fpToFP(z3.RNE(), v.z, z3.Float32()), self.S.Float))
        if name == "isinf":
            return Val(BOOL, z3.fpIsInf(self.coerce(self.sv(a[0], st), FLOAT).z))
        if name == "isnan":
            return Val(BOOL, z3.fpIsNaN(self.coerce(self.sv(a[0], st), FLOAT).z))
        if name == "fpeq":
            x, y = self.coerce(self.sv(a[0], st), FLOAT).z, self.coerce(self.sv(a[1], st), FLOAT).z
            return Val(BOOL, z3.Or(x == y, z3.And(z3.fpIsNaN(x), z3.fpIsNaN(y))))
        if name == "identity_map":
            i = z3.Int(fresh_name("i"))
            return Val(("map", INT, INT), z3.Lambda([i], i))
        if name == "shift_insert":
            # shift_insert(m, pos, v): the map of a sequence after inserting value v at position pos
            m, pos, v = self.sv(a[0], st), self.coerce(self.sv(a[1], st), INT), self.coerce(self.sv(a[2], st), INT)
            i = z3.Int(fresh_name("i"))
            return Val(m.t, z3.Lambda([i], z3.If(i < pos.z, z3.Select(m.z, i), z3.If(i == pos.z, v.z, z3.Select(m.z, i - 1)))))
        if name == "shift_up":
            # shift_up(m, pos): every value >= pos is incremented (positions of elements after an insertion at pos)
            m, pos = self.sv(a[0], st), self.coerce(self.sv(a[1], st), INT)
            i = z3.Int(fresh_name("i"))
            return Val(m.t, z3.Lambda([i], z3.If(z3.Select(m.z, i) >= pos.z, z3.Select(m.z, i) + 1, z3.Select(m.z, i))))
        if name == "store_all_zero":
            return Val(("map", INT, INT), z3.K(z3.IntSort(), z3.IntVal(0)))
        if name == "dtype":
            r = self.sv(a[0], st)
            return Val(INT, self.dtype_fn(r.z))
        if name == "classid":
            return Val(INT, z3.IntVal(self.class_id(a[0].id)))
        if name == "cast":
            r = self.sv(a[0], st)
            return Val(ref(a[1].id), r.z)
        if name == "let":
            # let("x", value, body)
            s = st.fork()
            s.frames[-1][a[0].value] = self.sv(a[1], st)
            return self.sv(a[2], s)
        raise Unsupported(f"spec form {name}", e, "spec")
