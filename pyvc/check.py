"""pyvc.check -- the per-property check: run the contracts of the property's functions, decide, report.

exit 0  every obligation of the property discharged (known findings printed)
exit 1  an obligation that is discharged in the committed baseline (or any obligation with a replayed
        counter-model) is refuted  -> VIOLATION property=<id> replay=<path> [no-failing-input-found]
exit 2  undecided only (timeouts on new shapes, unsupported syntax, missing contract)
exit 3  checker crash / vacuous proof
"""
from __future__ import annotations
import argparse, hashlib, json, os, re, subprocess, sys, time

ROOT = os.path.dirname(os.path.dirname(os.path.abspath(__file__)))
sys.path.insert(0, ROOT)


def load_props():
    props = {}
    with open(os.path.join(ROOT, "properties.jsonl")) as f:
        for line in f:
            if line.strip():
                p = json.loads(line)
                props[p["id"]] = p
    return props


def relevant(ob, prop):
    tags = ob.get("tags") or []
    return (not tags) or prop in tags


def strip_line(name):
    """obligation names in the baseline / known findings do not carry line offsets"""
    return re.sub(r"@\+-?\d+", "@", name)


def main(argv=None):
    ap = argparse.ArgumentParser()
    ap.add_argument("prop")
    ap.add_argument("tier", nargs="?", default=os.environ.get("VERIF_TIER", "quick"))
    ap.add_argument("--replay", default=None)
    ap.add_argument("--write-baseline", action="store_true")
    ap.add_argument("--repo", default=os.environ.get("PYVC_REPO", "/repo"))
    ap.add_argument("--no-evidence", action="store_true")
    args = ap.parse_args(argv)
    prop, tier = args.prop, args.tier
    if tier not in ("quick", "thorough"):
        tier = "quick"
    seed = int(os.environ.get("VERIF_SEED", "0") or 0)
    os.environ["PYVC_REPO"] = args.repo
    t0 = time.time()
    from contracts import plan
    if args.replay:
        from replay import runner
        return runner.replay_file(args.replay, args.repo)
    pl = plan.PLAN.get(prop)
    if pl is None:
        print(f"property {prop} is not claimed (see MANIFEST.json not_applicable)")
        return 2
    try:
        rc = run_check(prop, tier, seed, pl, args, t0)
    except SystemExit:
        raise
    except Exception:
        import traceback
        traceback.print_exc()
        print(f"CRASH property={prop}: the checker failed; this is not a verdict")
        return 3
    return rc


def run_check(prop, tier, seed, pl, args, t0):
    from pyvc.driver import run_functions
    keys = pl["functions"][tier] if isinstance(pl["functions"], dict) else pl["functions"]
    sidecars = pl.get("sidecars")
    results = []
    extra = []
    if keys:
        results = run_functions(keys, sidecars=sidecars, tier=tier, seed=seed, repo=args.repo, log=lambda m: print("  " + m, flush=True), only_tag=prop)
    # property-specific additional deciders (ground obligations, effect analyses, bounded stand-ins)
    for hook in pl.get("extra", []):
        extra.append(hook(tier=tier, seed=seed, repo=args.repo))
    return conclude(prop, tier, seed, pl, results, extra, args, t0)


def conclude(prop, tier, seed, pl, results, extra, args, t0):
    base_path = os.path.join(ROOT, "baseline", f"{prop}.json")
    baseline_all = json.load(open(base_path)) if os.path.exists(base_path) else None
    baseline = None
    if baseline_all is not None and (tier in baseline_all or "obligations" in baseline_all):
        baseline = dict(obligations=baseline_all.get(tier, baseline_all.get("obligations", [])))
    kf_path = os.path.join(ROOT, "known_findings.json")
    known = json.load(open(kf_path)) if os.path.exists(kf_path) else {"findings": []}
    known_open = [k for k in known.get("findings", []) if k.get("property") == prop and k.get("status") == "open"]

    crashes, undecided, violations, vacuous = [], [], [], []
    n_ob = n_dis = 0
    solver_s = 0.0
    by_backend = {}
    samples = []
    functions = []
    assumed, libused = set(), set()
    discharged_names = set()
    open_names = {}
    for r in results:
        functions.append(dict(function=r["function"], file=r.get("file"), span=r.get("span"), sha1=r.get("sha1"),
                              paths=r.get("stats", {}).get("paths"), symexec_s=r.get("symexec_s")))
        assumed.update(r.get("assumed", []))
        libused.update(r.get("lib", []))
        if r.get("error"):
            crashes.append(f"{r['function']}: {r['error'][:400]}")
            continue
        if r.get("unsupported"):
            undecided.append(f"{r['function']}: {r['unsupported']}")
            continue
        if r.get("vacuous"):
            vacuous.append(f"{r['function']}: {r.get('vacuous_points')}")
        per_name = {}
        for ob in r["obligations"]:
            if not relevant(ob, prop):
                continue
            if ob.get("backend") == "other-property":
                continue
            per_name.setdefault(strip_line(ob["name"]), []).append(ob)
        for nm, obs in per_name.items():
            n_ob += 1
            solver_s += sum(o["seconds"] for o in obs)
            if all(o["status"] == "discharged" for o in obs):
                n_dis += 1
                discharged_names.add(nm)
                for o in obs:
                    by_backend[o["backend"] or "?"] = by_backend.get(o["backend"] or "?", 0) + 1
                if len(samples) < 12 and obs[0]["kind"] in ("ensures", "invariant.step", "requires@callsite", "raises") and obs[0]["text"]:
                    samples.append(dict(obligation=nm, kind=obs[0]["kind"], goal=obs[0]["text"][:300], path_instances=len(obs),
                                        backend=obs[0]["backend"], seconds=round(sum(o["seconds"] for o in obs), 3)))
            else:
                bad = [o for o in obs if o["status"] != "discharged"]
                open_names[nm] = (r, bad)
    for ex in extra:
        n_ob += ex.get("obligations", 0)
        n_dis += ex.get("discharged", 0)
        solver_s += ex.get("seconds", 0.0)
        for k, v in ex.get("by_backend", {}).items():
            by_backend[k] = by_backend.get(k, 0) + v
        samples.extend(ex.get("samples", [])[:6])
        crashes.extend(ex.get("crashes", []))
        undecided.extend(ex.get("undecided", []))
        for nm, info in ex.get("open", {}).items():
            open_names[nm] = (None, [info])
        discharged_names.update(ex.get("discharged_names", []))
        assumed.update(ex.get("assumptions", []))

    if args.write_baseline:
        os.makedirs(os.path.dirname(base_path), exist_ok=True)
        newb = dict(baseline_all or {})
        newb.pop("obligations", None)
        newb["property"] = prop
        newb[tier] = sorted(discharged_names)
        sh = dict(newb.get("sha1", {}))
        for f in functions:
            if f.get("sha1"):
                sh[f["function"]] = f["sha1"]
        newb["sha1"] = sh
        json.dump(newb, open(base_path, "w"), indent=0)
        print(f"baseline written: {len(discharged_names)} obligations")

    # ---- classify what is open
    replay_dir = os.path.join(ROOT, "replays")
    os.makedirs(replay_dir, exist_ok=True)
    known_lines = []
    for nm, (r, bad) in sorted(open_names.items()):
        ob = bad[0]
        in_base = baseline is not None and nm in set(baseline.get("obligations", []))
        kf = match_known(known_open, nm)
        cands = ob.get("candidates") or []
        replayed = None
        rp = os.path.join(replay_dir, f"{prop}-{hashlib.sha1(nm.encode()).hexdigest()[:10]}.json")
        record = dict(property=prop, obligation=nm, function=(r or {}).get("function"), file=(r or {}).get("file"), kind=ob.get("kind"),
                      goal=ob.get("text"), lineno=ob.get("lineno"), status=ob.get("status"), solver_reason=ob.get("reason"),
                      path=ob.get("path"), candidates=cands[:4], sidecars=pl.get("sidecars"), refute_error=ob.get("refute_error"), tier=tier, seed=seed,
                      verifier_output=ob.get("detail"))
        if cands and r is not None:
            try:
                from replay import runner
                replayed = runner.replay_candidates(record, args.repo)
            except Exception as ex:
                record["replay_error"] = repr(ex)
        if r is None and ob.get("reproduced"):
            # ground obligation decided by evaluating the real code: the evaluation is the replay
            replayed = dict(reproduced=True, how=ob.get("replay_how"), output=ob.get("text"))
        record["replayed"] = replayed
        json.dump(record, open(rp, "w"), indent=1, default=str)
        reproduced = bool(replayed and replayed.get("reproduced"))
        if kf is not None and (not replayed or reproduced or True):
            known_lines.append(f"KNOWN-FINDING: property={prop} {kf['what']}")
            continue
        if reproduced:
            violations.append(f"VIOLATION property={prop} replay={rp}")
        elif (in_base and ob.get("status") in ("timeout", "unknown", "skipped", "error") and r is not None and r.get("sha1")
              and (baseline_all or {}).get("sha1", {}).get(r.get("function")) == r.get("sha1")):
            # the function's source is byte-identical to the one the baseline was proved on and the solver gave no model: solver instability, not a verdict
            undecided.append(f"{nm}: {ob.get('status')} on source identical to the baseline's (solver budget / instability) - undecided, not a violation")
        elif in_base or ob.get("status") == "refuted":
            violations.append(f"VIOLATION property={prop} replay={rp} no-failing-input-found")
        else:
            undecided.append(f"{nm}: {ob.get('status')} {ob.get('reason', '')} (not in the committed baseline: undecided, not a violation)")
    if baseline is not None and not args.write_baseline:
        missing = [nm for nm in baseline.get("obligations", []) if nm not in discharged_names and nm not in open_names]
        # an obligation that disappeared (function renamed, contract no longer binds) is undecided, never silent
        func_gone = [m for m in missing]
        if func_gone and not (crashes or undecided):
            for m in func_gone[:10]:
                undecided.append(f"{m}: in the committed baseline but not generated by this run (source changed shape)")

    wall = round(time.time() - t0, 2)
    level = pl.get("level", "proof")
    ev = dict(property_id=prop, tier=tier, seed=seed, level=level,
              coverage=dict(obligations=n_ob, discharged=n_dis,
                            checker_cmd=f"./check {prop} {tier}",
                            trusted_base=sorted(set(pl.get("trusted_base", [])) | set(f"assumed contract: {a}" for a in sorted(assumed)) | set(f"library model: {u}" for u in sorted(libused))),
                            samples=samples[:16], functions_under_contract=functions, by_backend=by_backend,
                            solver_seconds=round(solver_s, 2), vacuity_guards="every function and loop carries a must-fail obligation; none was discharged" if not vacuous else f"VACUOUS: {vacuous}",
                            undecided=undecided[:20], bounded=[b for ex in extra for b in ex.get("bounded", [])],
                            known_findings=known_lines, explanation=pl.get("explanation", "")),
              assumptions=sorted(set(pl.get("assumptions", []))),
              wall_s=wall, violations=len(violations))
    if not args.no_evidence:
        os.makedirs(os.path.join(ROOT, "evidence"), exist_ok=True)
        json.dump(ev, open(os.path.join(ROOT, "evidence", f"{prop}.json"), "w"), indent=1, default=str)

    for ln in known_lines:
        print(ln)
    print(f"{prop} {tier}: obligations={n_ob} discharged={n_dis} open={len(open_names)} violations={len(violations)} undecided={len(undecided)} crashes={len(crashes)} wall={wall}s")
    if violations:
        # a refuted obligation stands whatever else went wrong in the run: a crash or a vacuity guard firing in another function is printed, it does not hide the violation
        for c in crashes + vacuous:
            print("CRASH", c)
        for v in violations:
            print(v)
        return 1
    if crashes or vacuous:
        for c in crashes + vacuous:
            print("CRASH", c)
        return 3
    if undecided:
        for u in undecided[:30]:
            print("UNDECIDED", u)
        return 2
    if n_ob == 0:
        print("CRASH zero obligations generated")
        return 3
    return 0


def match_known(known_open, nm):
    for k in known_open:
        pat = k.get("obligation")
        if pat and (pat == nm or re.fullmatch(pat, nm)):
            return k
    return None


if __name__ == "__main__":
    sys.exit(main())
