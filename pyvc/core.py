"""pyvc.core -- types, sorts, symbolic values, state, obligations."""
from __future__ import annotations
import ast, copy, itertools, re
import z3

# ----------------------------------------------------------------------------- types
# a type is a tuple: ('int',) ('bool',) ('float',) ('str',) ('none',) ('ref', 'Cls')
# ('set', T) ('dict', K, V, flavor) ('list', T) ('tuple', T1, ...) ('cls',) ('opaque', name)
INT, BOOL, FLOAT, STR, NONE = ("int",), ("bool",), ("float",), ("str",), ("none",)
CLS = ("cls",)          # a class object (concrete name in Val.conc)
EXC = ("exc",)          # an exception value (opaque)


def ref(c):
    return ("ref", c)


_TYPE_ALIASES = {"Int": INT, "int": INT, "Bool": BOOL, "bool": BOOL, "Float": FLOAT, "float": FLOAT,
                 "Str": STR, "str": STR, "None": NONE, "Cls": CLS, "Exc": EXC,
                 "PyVal": ("opaque", "PyVal")}      # an arbitrary python value: an int, a float, or something else (str, None, complex, ...)
PYVAL = ("opaque", "PyVal")


def parse_type(s) -> tuple:
    if isinstance(s, tuple):
        return s
    node = ast.parse(s.strip(), mode="eval").body
    return _ptype(node)


def _ptype(n) -> tuple:
    if isinstance(n, ast.Name):
        return _TYPE_ALIASES.get(n.id, ("ref", n.id))
    if isinstance(n, ast.Constant) and n.value is None:
        return NONE
    if isinstance(n, ast.Subscript):
        head = n.value.id
        sl = n.slice
        args = list(sl.elts) if isinstance(sl, ast.Tuple) else [sl]
        targs = [_ptype(a) for a in args if not (isinstance(a, ast.Constant) and isinstance(a.value, int))]
        if head == "Set":
            return ("set", targs[0])
        if head == "List":
            return ("list", targs[0])
        if head in ("Dict", "DefaultDict", "Counter"):
            flavor = {"Dict": "plain", "DefaultDict": "default", "Counter": "counter"}[head]
            if head == "Counter":
                return ("dict", targs[0], INT, flavor)
            if head == "DefaultDict":
                return ("map", targs[0], targs[1])     # total map: a read of a missing key yields the default
            return ("dict", targs[0], targs[1], flavor)
        if head == "Tuple":
            return ("tuple",) + tuple(targs)
        if head in ("Ref", "Opt", "Optional"):
            return targs[0]
        if head == "Map":
            return ("map", targs[0], targs[1])
        if head == "CtxVar":
            return ("ctxvar", targs[0])
        if head == "Seq":
            return ("list", targs[0])
        if head == "CArray":
            return ("carray", _ptype(args[0]), args[1].value)
    raise ValueError(f"bad type {ast.dump(n)}")


def tstr(t) -> str:
    k = t[0]
    if k == "ref":
        return t[1]
    if k in ("set", "list"):
        return f"{k.capitalize()}[{tstr(t[1])}]"
    if k == "dict":
        return f"Dict[{tstr(t[1])},{tstr(t[2])}]/{t[3]}"
    if k == "tuple":
        return "Tuple[" + ",".join(tstr(x) for x in t[1:]) + "]"
    if k == "map":
        return f"Map[{tstr(t[1])},{tstr(t[2])}]"
    if k in ("ctxvar", "token"):
        return f"{k}[{tstr(t[1])}]"
    return k


class Sorts:
    """z3 sorts.  Ref is uninterpreted in prove mode and an EnumSort in refute (finite-scope) mode."""

    def __init__(self, scope: int | None = None):
        self.scope = scope
        if scope is None:
            self.Ref = z3.DeclareSort("Ref")
            self.null = z3.Const("null", self.Ref)
            self.ref_consts = None
        else:
            self.Ref, cs = z3.EnumSort("Ref", ["null"] + [f"o{i}" for i in range(1, scope + 1)])
            self.null = cs[0]
            self.ref_consts = cs
        self.Float = z3.Float64()
        self._dt: dict = {}

    def sort(self, t):
        k = t[0]
        if k == "int":
            return z3.IntSort()
        if k == "bool":
            return z3.BoolSort()
        if k == "float":
            return self.Float
        if k == "str":
            return z3.StringSort()
        if k in ("ref", "none", "exc"):
            return self.Ref
        if k == "cls":
            return z3.IntSort()
        if k == "set":
            return z3.ArraySort(self.sort(t[1]), z3.BoolSort())
        if k == "list":
            return self._list_dt(self.sort(t[1]))
        if k == "dict":
            return self._dict_dt(self.sort(t[1]), self.sort(t[2]))
        if k == "opaque":
            return self._opaque(t[1])
        if k == "map":
            return z3.ArraySort(self.sort(t[1]), self.sort(t[2]))
        if k in ("ctxvar", "token"):
            return self.sort(t[1])
        if k == "carray":
            return z3.ArraySort(z3.IntSort(), self.sort(t[1]))
        raise ValueError(f"no sort for {t}")

    def _opaque(self, name):
        key = ("opaque", name)
        if key not in self._dt:
            self._dt[key] = z3.DeclareSort(name)
        return self._dt[key]

    def _list_dt(self, es):
        key = ("list", es.sexpr())
        if key not in self._dt:
            name = "List_" + re.sub(r"\W+", "_", es.sexpr())
            d = z3.Datatype(name)
            d.declare("mk", ("len", z3.IntSort()), ("at", z3.ArraySort(z3.IntSort(), es)))
            self._dt[key] = d.create()
        return self._dt[key]

    def _dict_dt(self, ks, vs):
        key = ("dict", ks.sexpr(), vs.sexpr())
        if key not in self._dt:
            name = "Dict_" + re.sub(r"\W+", "_", ks.sexpr() + "_" + vs.sexpr())
            d = z3.Datatype(name)
            d.declare("mk", ("dom", z3.ArraySort(ks, z3.BoolSort())), ("val", z3.ArraySort(ks, vs)))
            self._dt[key] = d.create()
        return self._dt[key]


_fresh = itertools.count()


def fresh_name(base):
    return f"{base}!{next(_fresh)}"


class Val:
    __slots__ = ("t", "z", "conc", "origin", "choices")

    def __init__(self, t, z, conc=None, origin=None, choices=None):
        self.t, self.z, self.conc, self.origin, self.choices = t, z, conc, origin, choices

    def __repr__(self):
        return f"Val<{tstr(self.t)}:{self.z if self.z is not None else self.conc}>"


class Exc:
    """an exceptional result: class name (static upper bound) and optional bound value"""
    __slots__ = ("cls", "info", "lineno")

    def __init__(self, cls, info="", lineno=0):
        self.cls, self.info, self.lineno = cls, info, lineno

    def __repr__(self):
        return f"Exc<{self.cls} {self.info}>"


class Obligation:
    def __init__(self, name, kind, hyps, goal, lineno=0, tags=(), text="", func="", path=None):
        self.name, self.kind, self.hyps, self.goal = name, kind, list(hyps), goal
        self.lineno, self.tags, self.text, self.func = lineno, tuple(tags), text, func
        self.path = path or []
        self.status = None      # discharged / refuted / unknown / timeout
        self.backend = None
        self.seconds = 0.0
        self.model = None
        self.reason = ""


class State:
    def __init__(self):
        self.frames: list[dict] = [{}]
        self.heap: dict = {}         # (cls, field) -> z3 array Ref -> sort
        self.glob: dict = {}         # name -> Val  (ghost globals, context vars, module globals)
        self.pc: list = []           # z3 bools
        self.alloc = None            # z3 Array(Ref, Bool)
        self.old: State | None = None
        self.marks: dict = {}        # label -> State (loop entry snapshots)
        self.written: set | None = None   # discovery mode: heap keys / global names written
        self.trace: list = []
        self.cur_exc: Exc | None = None
        self.handled: list = []

    @property
    def locals(self):
        return self.frames[-1]

    def fork(self) -> "State":
        s = State.__new__(State)
        s.frames = [dict(f) for f in self.frames]
        s.heap = dict(self.heap)
        s.glob = dict(self.glob)
        s.pc = list(self.pc)
        s.alloc = self.alloc
        s.old = self.old
        s.marks = dict(self.marks)
        s.written = self.written     # shared on purpose (accumulates over all paths)
        s.trace = list(self.trace)
        s.cur_exc = self.cur_exc
        s.handled = list(self.handled)
        return s

    def assume(self, c):
        if z3.is_true(c):
            return self
        if z3.is_and(c):
            for ch in c.children():
                self.assume(ch)
            return self
        self.pc.append(c)
        return self

    def note(self, lineno, what):
        self.trace.append((lineno, what))
