"""pyvc.detcheck -- C16: determinism of the compiler (effect analysis) and currency of core_defs.py (ground obligation).

(a) effect obligations, one per function of parser.py / compile.py / compilers/*.py: the function reads no
    clock, random source, environment variable, object identity or hash, and iterates over no set - discharged
    by a syntactic analysis of the AST (deterministic pure functions of their inputs give byte-equal outputs);
(c) one ground obligation: compiling the shipped core_defs.yaml with the real compiler reproduces the shipped
    core_defs.py byte for byte (decided by running the compiler on the current tree).
The combined-YAML round trip of C16 (b) is NOT decided; a BOUNDED stand-in (one input: the shipped core definition closure
is compiled to the combined YAML, recompiled, and the generated classes compared) is run and reported under `bounded`.
"""
from __future__ import annotations
import ast, filecmp, os, shutil, subprocess, tempfile, time

FORBIDDEN_CALLS = {"time.time", "time.perf_counter", "time.monotonic", "time.time_ns", "datetime.now", "datetime.utcnow", "datetime.today", "date.today",
                   "random.random", "random.randint", "random.choice", "random.shuffle", "random.sample", "uuid.uuid4", "uuid.uuid1", "os.getenv", "os.urandom",
                   "os.getpid", "socket.gethostname", "getpass.getuser", "os.listdir", "os.scandir", "glob.glob", "id", "hash"}
FORBIDDEN_ATTRS = {"os.environ"}


SHARED_REPLAY = r'''
import os, sys, pathlib, tempfile, shutil, logging, io, contextlib
sys.path.insert(0, os.path.join(sys.argv[1], "src"))
logging.disable(logging.CRITICAL)
from pyrtma.parser import Parser
tmp = tempfile.mkdtemp(prefix="c16s_")
try:
    a = pathlib.Path(tmp) / "a.yaml"; b = pathlib.Path(tmp) / "b.yaml"
    a.write_text("constants:\n  ONLY_IN_A: 7\nmessage_defs:\n  A_MSG:\n    id: 4001\n    fields:\n      x: int32\n")
    b.write_text("constants:\n  ONLY_IN_B: 9\nmessage_defs:\n  B_MSG:\n    id: 4002\n    fields:\n      y: int32\n")
    def run(path):
        p = Parser(); p.parse(path)
        return {k: sorted(v.keys()) for k, v in p.yaml_dict.items() if isinstance(v, dict)}
    alone = None
    import subprocess
    first = run(b)          # b alone (fresh process state for b's sections is what a second process would see)
    run(a)
    second = run(b)
    leaked = {k: [x for x in second[k] if x not in first.get(k, [])] for k in second}
    leaked = {k: v for k, v in leaked.items() if v}
    if leaked:
        print("C16-REPLAY-VIOLATION: compiling b.yaml after a.yaml in the same process puts a.yaml's definitions into b's combined YAML:", leaked)
finally:
    shutil.rmtree(tmp, ignore_errors=True)
'''


def _dotted(n):
    if isinstance(n, ast.Name):
        return n.id
    if isinstance(n, ast.Attribute):
        b = _dotted(n.value)
        return f"{b}.{n.attr}" if b else n.attr
    return None


def effects_of(fdef):
    bad = []
    for n in ast.walk(fdef):
        if isinstance(n, ast.Call):
            d = _dotted(n.func)
            if d and (d in FORBIDDEN_CALLS or d.split(".", 1)[-1] in FORBIDDEN_CALLS and d.split(".")[0] in ("datetime", "time", "random", "uuid", "os")):
                bad.append((n.lineno, f"call to {d}"))
            if d in ("set", "frozenset") and n.args:
                # a set built from data is only harmful if it is iterated; flag iteration below
                pass
        if isinstance(n, ast.Attribute) and _dotted(n) in FORBIDDEN_ATTRS:
            bad.append((n.lineno, f"reads {_dotted(n)}"))
        if isinstance(n, (ast.For, ast.comprehension)):
            it = n.iter
            if isinstance(it, (ast.Set, ast.SetComp)) or (isinstance(it, ast.Call) and _dotted(it.func) in ("set", "frozenset")):
                bad.append((getattr(n, "lineno", getattr(it, "lineno", 0)), "iterates over a set (order depends on hashing)"))
    return bad


MUTATORS = {"append", "extend", "insert", "remove", "pop", "popitem", "clear", "update", "setdefault", "add", "discard", "sort", "reverse", "__setitem__", "__delitem__"}
CONTAINER_CALLS = {"dict", "list", "set", "defaultdict", "OrderedDict", "Counter", "deque", "collections.defaultdict", "collections.OrderedDict"}


def _is_container(v):
    return isinstance(v, (ast.Dict, ast.List, ast.Set, ast.DictComp, ast.ListComp, ast.SetComp)) or (isinstance(v, ast.Call) and _dotted(v.func) in CONTAINER_CALLS)


def module_state(tree):
    """module-level names bound to mutable containers -> True when the container holds further mutable containers (a shallow copy shares them)"""
    out = {}
    for n in tree.body:
        tg, v = None, None
        if isinstance(n, ast.Assign) and len(n.targets) == 1 and isinstance(n.targets[0], ast.Name):
            tg, v = n.targets[0].id, n.value
        elif isinstance(n, ast.AnnAssign) and isinstance(n.target, ast.Name) and n.value is not None:
            tg, v = n.target.id, n.value
        if tg and _is_container(v):
            out[tg] = any(_is_container(c) for c in ast.walk(v) if c is not v)
    return out


def shared_state_effects(fdef, state):
    """uses of module-level mutable containers that make a function's result depend on earlier calls in the same process"""
    bad = []
    local = {a.arg for a in fdef.args.args + fdef.args.kwonlyargs} | {t.id for n in ast.walk(fdef) if isinstance(n, ast.Assign) for t in n.targets if isinstance(t, ast.Name)}
    parents = {}
    for n in ast.walk(fdef):
        for c in ast.iter_child_nodes(n):
            parents[c] = n
    for n in ast.walk(fdef):
        if not (isinstance(n, ast.Name) and n.id in state and n.id not in local):
            continue
        par = parents.get(n)
        gp = parents.get(par)
        # mutation through the module-level name
        if isinstance(par, ast.Subscript) and par.value is n and isinstance(par.ctx, (ast.Store, ast.Del)):
            bad.append((n.lineno, f"stores into module-level container {n.id}")); continue
        if isinstance(par, ast.Attribute) and par.value is n and par.attr in MUTATORS and isinstance(gp, ast.Call) and gp.func is par:
            bad.append((n.lineno, f"mutates module-level container {n.id} ({par.attr})")); continue
        if isinstance(par, ast.AugAssign) and par.target is n:
            bad.append((n.lineno, f"updates module-level container {n.id} in place")); continue
        if not state[n.id]:
            continue
        # a container of containers: anything but a deep copy or a look at its keys hands out the shared inner containers
        if isinstance(par, ast.Call) and n in par.args and _dotted(par.func) in ("deepcopy", "copy.deepcopy", "len", "sorted", "repr", "str"):
            continue
        if isinstance(par, ast.Compare) and n in par.comparators:
            continue
        if isinstance(par, ast.Attribute) and par.attr == "keys":
            continue
        if isinstance(par, (ast.For, ast.comprehension)) and par.iter is n:
            continue
        how = f"{_dotted(par.func)}({n.id})" if isinstance(par, ast.Call) and n in par.args else (f"{n.id}.{par.attr}" if isinstance(par, ast.Attribute) else n.id)
        bad.append((n.lineno, f"{how}: the inner containers of module-level {n.id} are shared with every other user (a shallow copy does not separate them), so what this call "
                              "leaves in them is seen by the next compilation in the same process"))
    return bad


def check(tier="quick", seed=0, repo="/repo"):
    t0 = time.time()
    res = dict(obligations=0, discharged=0, open={}, discharged_names=[], samples=[], by_backend={}, seconds=0.0, crashes=[], undecided=[], bounded=[],
               assumptions=["effect analysis is syntactic: a function free of clock / random / environment / identity / hash reads and of set iteration is a deterministic function of its "
                            "arguments, the definition files and the parser model (dicts iterate in insertion = document order); library calls (ruamel.yaml, black, hashlib, textwrap, re, pathlib) are deterministic",
                            "C16 (b), the combined-YAML round trip, is NOT decided by this check (see DESIGN: emission-order findings)",
                            "shared-state effect: no function of parser.py / compile.py / compilers (python_v1.py, the legacy header compiler with its cumulative typedef table, excepted) mutates a "
                            "module-level container or lets a module-level container of containers escape other than through deepcopy - so a compilation does not depend on earlier ones in the process"])
    base = os.path.join(repo, "src", "pyrtma")
    files = [os.path.join(base, "parser.py"), os.path.join(base, "compile.py")] + sorted(
        os.path.join(base, "compilers", f) for f in os.listdir(os.path.join(base, "compilers")) if f.endswith(".py"))
    for path in files:
        try:
            tree = ast.parse(open(path).read())
        except (SyntaxError, OSError) as ex:
            res["undecided"].append(f"{path}: {ex}")
            continue
        rel = os.path.relpath(path, os.path.join(repo, "src"))
        mstate = module_state(tree)
        for node in ast.walk(tree):
            if isinstance(node, (ast.FunctionDef, ast.AsyncFunctionDef)):
                name = f"C16/effect/{rel}:{node.name}"
                if name in res["open"] or name in res["discharged_names"]:
                    name += f"@{node.lineno}"
                res["obligations"] += 1
                # the legacy header-to-python compiler (python_v1.py) accumulates the typedefs it has seen in a module-level table on purpose; an accepted
                # closure defines every typedef it uses before use, so its own output does not depend on that table: the shared-state obligation is not applied there
                bad = effects_of(node) + ([] if rel.endswith("python_v1.py") else shared_state_effects(node, mstate))
                if not bad:
                    res["discharged"] += 1
                    res["discharged_names"].append(name)
                    res["by_backend"]["effect-analysis"] = res["by_backend"].get("effect-analysis", 0) + 1
                else:
                    res["open"][name] = dict(kind="effect", status="refuted", text=f"{rel}:{node.name} is not a deterministic function of its inputs: " + "; ".join(f"L{ln} {w}" for ln, w in bad[:4]),
                                             reason="effect found", candidates=[])
    shared = {n: i for n, i in res["open"].items() if "module-level" in i["text"]}
    if shared:
        try:
            p = subprocess.run(["/venv/bin/python", "-c", SHARED_REPLAY, repo], capture_output=True, text=True, timeout=180)
            lines = [l for l in p.stdout.splitlines() if l.startswith("C16-REPLAY-VIOLATION")]
            if lines:
                for info in shared.values():
                    info.update(reproduced=True, replay_how="two Parser objects in one process: parse a.yaml (constant ONLY_IN_A), then b.yaml; dump b's combined YAML", verifier_output=info["text"])
                    info["text"] += "\nreplayed on the real parser: " + lines[0]
        except Exception:
            pass
    if len(res["samples"]) < 2 and res["discharged_names"]:
        res["samples"].append(dict(obligation=res["discharged_names"][0], goal="no clock / random / environment / identity / hash read, no iteration over a set", backend="effect-analysis"))
    # (c) ground: the shipped core_defs.py is what the compiler produces from the shipped YAML
    name = "C16/ground/core_defs.py-is-current"
    res["obligations"] += 1
    tmp = tempfile.mkdtemp(prefix="pyvc_c16_", dir=os.path.join(os.path.dirname(os.path.dirname(os.path.abspath(__file__))), "replays") if os.path.isdir(os.path.join(os.path.dirname(os.path.dirname(os.path.abspath(__file__))), "replays")) else None)
    try:
        env = dict(os.environ)
        env["PYTHONPATH"] = os.path.join(repo, "src")
        outs = []
        for k in range(2):
            od = os.path.join(tmp, f"out{k}")
            os.makedirs(od)
            p = subprocess.run(["/venv/bin/python", "-m", "pyrtma.compile", "-i", "core_defs/core_defs.yaml", "-o", od, "--py"], cwd=base if k == 0 else base,
                               env=env, capture_output=True, text=True, timeout=300)
            if p.returncode != 0:
                res["open"][name] = dict(kind="ground", status="refuted", text="the compiler fails on the shipped core_defs.yaml: " + (p.stderr or p.stdout)[-400:], reason="compiler error", candidates=[])
                break
            outs.append(os.path.join(od, "core_defs.py"))
        else:
            same_twice = filecmp.cmp(outs[0], outs[1], shallow=False)
            current = filecmp.cmp(outs[0], os.path.join(base, "core_defs.py"), shallow=False)
            if same_twice and current:
                res["discharged"] += 1
                res["discharged_names"].append(name)
                res["by_backend"]["ground-evaluation"] = 1
                res["samples"].append(dict(obligation=name, goal="compile(core_defs.yaml) == shipped core_defs.py, byte for byte; two runs agree", backend="ground-evaluation"))
            else:
                import difflib
                a = open(outs[0]).read().splitlines()
                b = open(os.path.join(base, "core_defs.py")).read().splitlines()
                diff = "\n".join(list(difflib.unified_diff(b, a, "shipped core_defs.py", "regenerated", lineterm="", n=0))[:12])
                res["open"][name] = dict(kind="ground", status="refuted", reason="outputs differ", candidates=[], reproduced=True,
                                         replay_how="cd src/pyrtma && python -m pyrtma.compile -i core_defs/core_defs.yaml -o <tmp> --py; cmp <tmp>/core_defs.py core_defs.py",
                                         text=("two runs of the compiler differ; " if not same_twice else "") + "the shipped core_defs.py is not what the compiler produces from core_defs.yaml:\n" + diff)
        # (b) BOUNDED stand-in (one input: the shipped core definition closure): combined YAML -> recompile -> same generated classes
        bname = "C16/bounded/combined-yaml-roundtrip(core_defs)"
        if outs and len(outs) == 2:
            o1, o2 = os.path.join(tmp, "rt1"), os.path.join(tmp, "rt2")
            os.makedirs(o1); os.makedirs(o2)
            p1 = subprocess.run(["/venv/bin/python", "-m", "pyrtma.compile", "-i", "core_defs/core_defs.yaml", "-o", o1, "--py", "--combined", "-n", "core_defs"], cwd=base, env=env,
                                capture_output=True, text=True, timeout=300)
            comb = os.path.join(o1, "core_defs_combined.yaml")
            p2 = subprocess.run(["/venv/bin/python", "-m", "pyrtma.compile", "-i", comb, "-o", o2, "--py", "--no_core_import", "-n", "core_defs"], cwd=tmp, env=env,
                                capture_output=True, text=True, timeout=300) if os.path.exists(comb) else None

            def sig(path):
                return [l for l in open(path).read().splitlines() if not l.startswith("#") and "COMPILED_PYRTMA" not in l and "type_source" not in l]
            entry = dict(check=bname, bound="one definition closure: the shipped core_defs.yaml + data_logger.yaml + quick_logger.yaml", result="held")
            if p1.returncode != 0 or p2 is None or p2.returncode != 0:
                entry["result"] = "violated"
                detail = "the combined YAML of the shipped core definitions does not recompile: " + ((p2.stderr or p2.stdout)[-300:] if p2 is not None else (p1.stderr or p1.stdout)[-300:])
            elif sig(os.path.join(o1, "core_defs.py")) != sig(os.path.join(o2, "core_defs.py")):
                import difflib
                entry["result"] = "violated"
                detail = "recompiling the combined YAML of the shipped core definitions gives different ids / hashes / sizes / layouts:\n" + "\n".join(
                    list(difflib.unified_diff(sig(os.path.join(o1, "core_defs.py")), sig(os.path.join(o2, "core_defs.py")), "original", "from combined yaml", lineterm="", n=0))[:12])
            res["bounded"].append(entry)
            if entry["result"] == "violated":
                # a bounded check found a concrete failing input on the real code: reported (never counted as proved when it holds)
                res["obligations"] += 1
                res["open"][bname] = dict(kind="bounded", status="refuted", reason="bounded stand-in failed", candidates=[], reproduced=True, text=detail,
                                          replay_how="python -m pyrtma.compile -i core_defs/core_defs.yaml --py --combined; recompile the combined file with --no_core_import; compare")
    except Exception as ex:
        res["undecided"].append(f"{name}: {ex!r}")
    finally:
        shutil.rmtree(tmp, ignore_errors=True)
    res["seconds"] = round(time.time() - t0, 2)
    return res
