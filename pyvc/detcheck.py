"""pyvc.detcheck -- C16: determinism of the compiler (effect analysis) and currency of core_defs.py (ground obligation).

(a) effect obligations, one per function of parser.py / compile.py / compilers/*.py: the function reads no
    clock, random source, environment variable, object identity or hash, and iterates over no set - discharged
    by a syntactic analysis of the AST (deterministic pure functions of their inputs give byte-equal outputs);
(c) one ground obligation: compiling the shipped core_defs.yaml with the real compiler reproduces the shipped
    core_defs.py byte for byte (decided by running the compiler on the current tree).
The combined-YAML round trip of C16 (b) is NOT decided; a BOUNDED stand-in (one input: the shipped core definition closure
is compiled to the combined YAML, recompiled, and the generated classes compared) is run and reported under `bounded`.
"""
from __future__ import annotations
import ast, filecmp, os, shutil, subprocess, tempfile, time

FORBIDDEN_CALLS = {"time.time", "time.perf_counter", "time.monotonic", "time.time_ns", "datetime.now", "datetime.utcnow", "datetime.today", "date.today",
                   "random.random", "random.randint", "random.choice", "random.shuffle", "random.sample", "uuid.uuid4", "uuid.uuid1", "os.getenv", "os.urandom",
                   "os.getpid", "socket.gethostname", "getpass.getuser", "os.listdir", "os.scandir", "glob.glob", "id", "hash"}
FORBIDDEN_ATTRS = {"os.environ"}


def _dotted(n):
    if isinstance(n, ast.Name):
        return n.id
    if isinstance(n, ast.Attribute):
        b = _dotted(n.value)
        return f"{b}.{n.attr}" if b else n.attr
    return None


def effects_of(fdef):
    bad = []
    for n in ast.walk(fdef):
        if isinstance(n, ast.Call):
            d = _dotted(n.func)
            if d and (d in FORBIDDEN_CALLS or d.split(".", 1)[-1] in FORBIDDEN_CALLS and d.split(".")[0] in ("datetime", "time", "random", "uuid", "os")):
                bad.append((n.lineno, f"call to {d}"))
            if d in ("set", "frozenset") and n.args:
                # a set built from data is only harmful if it is iterated; flag iteration below
                pass
        if isinstance(n, ast.Attribute) and _dotted(n) in FORBIDDEN_ATTRS:
            bad.append((n.lineno, f"reads {_dotted(n)}"))
        if isinstance(n, (ast.For, ast.comprehension)):
            it = n.iter
            if isinstance(it, (ast.Set, ast.SetComp)) or (isinstance(it, ast.Call) and _dotted(it.func) in ("set", "frozenset")):
                bad.append((getattr(n, "lineno", getattr(it, "lineno", 0)), "iterates over a set (order depends on hashing)"))
    return bad


def check(tier="quick", seed=0, repo="/repo"):
    t0 = time.time()
    res = dict(obligations=0, discharged=0, open={}, discharged_names=[], samples=[], by_backend={}, seconds=0.0, crashes=[], undecided=[], bounded=[],
               assumptions=["effect analysis is syntactic: a function free of clock / random / environment / identity / hash reads and of set iteration is a deterministic function of its "
                            "arguments, the definition files and the parser model (dicts iterate in insertion = document order); library calls (ruamel.yaml, black, hashlib, textwrap, re, pathlib) are deterministic",
                            "C16 (b), the combined-YAML round trip, is NOT decided by this check (see DESIGN: emission-order findings)"])
    base = os.path.join(repo, "src", "pyrtma")
    files = [os.path.join(base, "parser.py"), os.path.join(base, "compile.py")] + sorted(
        os.path.join(base, "compilers", f) for f in os.listdir(os.path.join(base, "compilers")) if f.endswith(".py"))
    for path in files:
        try:
            tree = ast.parse(open(path).read())
        except (SyntaxError, OSError) as ex:
            res["undecided"].append(f"{path}: {ex}")
            continue
        rel = os.path.relpath(path, os.path.join(repo, "src"))
        for node in ast.walk(tree):
            if isinstance(node, (ast.FunctionDef, ast.AsyncFunctionDef)):
                name = f"C16/effect/{rel}:{node.name}"
                if name in res["open"] or name in res["discharged_names"]:
                    name += f"@{node.lineno}"
                res["obligations"] += 1
                bad = effects_of(node)
                if not bad:
                    res["discharged"] += 1
                    res["discharged_names"].append(name)
                    res["by_backend"]["effect-analysis"] = res["by_backend"].get("effect-analysis", 0) + 1
                else:
                    res["open"][name] = dict(kind="effect", status="refuted", text=f"{rel}:{node.name} is not a deterministic function of its inputs: " + "; ".join(f"L{ln} {w}" for ln, w in bad[:4]),
                                             reason="effect found", candidates=[])
    if len(res["samples"]) < 2 and res["discharged_names"]:
        res["samples"].append(dict(obligation=res["discharged_names"][0], goal="no clock / random / environment / identity / hash read, no iteration over a set", backend="effect-analysis"))
    # (c) ground: the shipped core_defs.py is what the compiler produces from the shipped YAML
    name = "C16/ground/core_defs.py-is-current"
    res["obligations"] += 1
    tmp = tempfile.mkdtemp(prefix="pyvc_c16_", dir=os.path.join(os.path.dirname(os.path.dirname(os.path.abspath(__file__))), "replays") if os.path.isdir(os.path.join(os.path.dirname(os.path.dirname(os.path.abspath(__file__))), "replays")) else None)
    try:
        env = dict(os.environ)
        env["PYTHONPATH"] = os.path.join(repo, "src")
        outs = []
        for k in range(2):
            od = os.path.join(tmp, f"out{k}")
            os.makedirs(od)
            p = subprocess.run(["/venv/bin/python", "-m", "pyrtma.compile", "-i", "core_defs/core_defs.yaml", "-o", od, "--py"], cwd=base if k == 0 else base,
                               env=env, capture_output=True, text=True, timeout=300)
            if p.returncode != 0:
                res["open"][name] = dict(kind="ground", status="refuted", text="the compiler fails on the shipped core_defs.yaml: " + (p.stderr or p.stdout)[-400:], reason="compiler error", candidates=[])
                break
            outs.append(os.path.join(od, "core_defs.py"))
        else:
            same_twice = filecmp.cmp(outs[0], outs[1], shallow=False)
            current = filecmp.cmp(outs[0], os.path.join(base, "core_defs.py"), shallow=False)
            if same_twice and current:
                res["discharged"] += 1
                res["discharged_names"].append(name)
                res["by_backend"]["ground-evaluation"] = 1
                res["samples"].append(dict(obligation=name, goal="compile(core_defs.yaml) == shipped core_defs.py, byte for byte; two runs agree", backend="ground-evaluation"))
            else:
                import difflib
                a = open(outs[0]).read().splitlines()
                b = open(os.path.join(base, "core_defs.py")).read().splitlines()
                diff = "\n".join(list(difflib.unified_diff(b, a, "shipped core_defs.py", "regenerated", lineterm="", n=0))[:12])
                res["open"][name] = dict(kind="ground", status="refuted", reason="outputs differ", candidates=[], reproduced=True,
                                         replay_how="cd src/pyrtma && python -m pyrtma.compile -i core_defs/core_defs.yaml -o <tmp> --py; cmp <tmp>/core_defs.py core_defs.py",
                                         text=("two runs of the compiler differ; " if not same_twice else "") + "the shipped core_defs.py is not what the compiler produces from core_defs.yaml:\n" + diff)
        # (b) BOUNDED stand-in (one input: the shipped core definition closure): combined YAML -> recompile -> same generated classes
        bname = "C16/bounded/combined-yaml-roundtrip(core_defs)"
        if outs and len(outs) == 2:
            o1, o2 = os.path.join(tmp, "rt1"), os.path.join(tmp, "rt2")
            os.makedirs(o1); os.makedirs(o2)
            p1 = subprocess.run(["/venv/bin/python", "-m", "pyrtma.compile", "-i", "core_defs/core_defs.yaml", "-o", o1, "--py", "--combined", "-n", "core_defs"], cwd=base, env=env,
                                capture_output=True, text=True, timeout=300)
            comb = os.path.join(o1, "core_defs_combined.yaml")
            p2 = subprocess.run(["/venv/bin/python", "-m", "pyrtma.compile", "-i", comb, "-o", o2, "--py", "--no_core_import", "-n", "core_defs"], cwd=tmp, env=env,
                                capture_output=True, text=True, timeout=300) if os.path.exists(comb) else None

            def sig(path):
                return [l for l in open(path).read().splitlines() if not l.startswith("#") and "COMPILED_PYRTMA" not in l and "type_source" not in l]
            entry = dict(check=bname, bound="one definition closure: the shipped core_defs.yaml + data_logger.yaml + quick_logger.yaml", result="held")
            if p1.returncode != 0 or p2 is None or p2.returncode != 0:
                entry["result"] = "violated"
                detail = "the combined YAML of the shipped core definitions does not recompile: " + ((p2.stderr or p2.stdout)[-300:] if p2 is not None else (p1.stderr or p1.stdout)[-300:])
            elif sig(os.path.join(o1, "core_defs.py")) != sig(os.path.join(o2, "core_defs.py")):
                import difflib
                entry["result"] = "violated"
                detail = "recompiling the combined YAML of the shipped core definitions gives different ids / hashes / sizes / layouts:\n" + "\n".join(
                    list(difflib.unified_diff(sig(os.path.join(o1, "core_defs.py")), sig(os.path.join(o2, "core_defs.py")), "original", "from combined yaml", lineterm="", n=0))[:12])
            res["bounded"].append(entry)
            if entry["result"] == "violated":
                # a bounded check found a concrete failing input on the real code: reported (never counted as proved when it holds)
                res["obligations"] += 1
                res["open"][bname] = dict(kind="bounded", status="refuted", reason="bounded stand-in failed", candidates=[], reproduced=True, text=detail,
                                          replay_how="python -m pyrtma.compile -i core_defs/core_defs.yaml --py --combined; recompile the combined file with --no_core_import; compare")
    except Exception as ex:
        res["undecided"].append(f"{name}: {ex!r}")
    finally:
        shutil.rmtree(tmp, ignore_errors=True)
    res["seconds"] = round(time.time() - t0, 2)
    return res
