"""pyvc.driver -- verify a set of functions: symbolic execution in this process, solving in a pool."""
from __future__ import annotations
import multiprocessing as mp, os, time, traceback
import z3
from .core import Sorts
from .source import Source
from .engine import Unsupported
from . import solve
from .run import load_registry, refute_function


def _init_worker():
    import signal
    signal.signal(signal.SIGINT, signal.SIG_IGN)


def run_functions(keys, sidecars=None, tier="quick", seed=0, jobs=None, repo=None, do_refute=True, log=None):
    from .verify import Engine
    jobs = jobs or int(os.environ.get("PYVC_JOBS", "16"))
    budget = 20000 if tier == "quick" else 120000
    ctx = mp.get_context("fork")
    results = []
    with ctx.Pool(jobs, initializer=_init_worker) as pool:
        src = Source(repo)
        per_func = []
        for key in keys:
            t0 = time.time()
            out = dict(function=key, obligations=[], error=None, unsupported=None, stats={}, assumed=[], calls=[], lib=[])
            try:
                R = load_registry(sidecars)
                eng = Engine(src, R, Sorts())
                mod, fdef = src.function(key)
                out["file"] = os.path.relpath(mod.path, src.repo)
                out["span"] = list(mod.span(fdef))
                out["sha1"] = mod.sha1(fdef)
                obs = eng.verify(key)
                out["stats"] = dict(eng.stats)
                out["assumed"] = sorted(eng.assumed)
                out["calls"] = sorted(eng.calls_used)
                out["lib"] = sorted(eng.lib.used)
                per_func.append((out, obs, t0))
            except Unsupported as ex:
                out["unsupported"] = str(ex)
                per_func.append((out, [], t0))
            except Exception as ex:
                out["error"] = repr(ex) + "\n" + traceback.format_exc()
                per_func.append((out, [], t0))
            if log:
                log(f"symexec {key}: {len(per_func[-1][1])} obligations {out['stats']} {out['unsupported'] or out['error'] or ''}")
        all_obs = []
        for out, obs, t0 in per_func:
            guards = [ob for ob in obs if ob.kind == "must_fail"]
            for g in guards:
                g.is_guard = True
            all_obs.extend(obs)
        # vacuity guards get the quick budget only
        guards = [ob for ob in all_obs if ob.kind == "must_fail"]
        real = [ob for ob in all_obs if ob.kind != "must_fail"]
        if guards:
            texts = [solve.to_smt2(g) for g in guards]
            res = pool.map(solve._pool_check, [(t, 3000, seed, False) for t in texts], chunksize=2)
            for g, (st, be, reason, secs) in zip(guards, res):
                g.status = st
        solve.solve_pool(real, pool, timeout_ms=budget, seed=seed)
        if log:
            log(f"solved {len(real)} obligations, open: {sum(1 for o in real if o.status != 'discharged')}")
        # refutation of what stays open, one task per function
        tasks = []
        for out, obs, t0 in per_func:
            g = [ob for ob in obs if ob.kind == "must_fail"]
            out["must_fail_checked"] = len(g)
            out["vacuous"] = bool(g) and all(x.status == "discharged" for x in g)
            bases = sorted({ob.base for ob in obs if ob.kind != "must_fail" and ob.status != "discharged"})
            if bases and do_refute and not out["unsupported"] and not out["error"]:
                tasks.append((out["function"], bases, sidecars, tier, seed, repo))
        wit = {}
        if tasks:
            for key, w in pool.imap_unordered(refute_function, tasks):
                wit[key] = w
        for out, obs, t0 in per_func:
            w = wit.get(out["function"], {})
            for ob in obs:
                if ob.kind == "must_fail":
                    continue
                d = dict(name=ob.name, base=ob.base, kind=ob.kind, tags=list(ob.tags), status=ob.status, backend=ob.backend,
                         seconds=round(ob.seconds, 3), text=ob.text, lineno=ob.lineno, reason=ob.reason)
                if ob.status != "discharged":
                    d["candidates"] = w.get(ob.base, [])
                    d["refute_error"] = w.get("__error__")
                    d["path"] = [f"L{ln}:{what}" for ln, what in ob.path]
                out["obligations"].append(d)
            out["wall_s"] = round(time.time() - t0, 2)
            results.append(out)
    return results
