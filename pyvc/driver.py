"""pyvc.driver -- verify a set of functions.

phase 1 (pool): one task per function: read the source, run the symbolic executor with fresh
                name counters (so the VCs of a function do not depend on what else is in the run),
                return the obligations as SMT-LIB text;
phase 2 (pool): solve every obligation (quick budget, then full budget, then two more seeds);
phase 3 (pool): finite-scope counter-model search for what stays open, one task per function.
"""
from __future__ import annotations
import multiprocessing as mp, os, time, traceback
from . import solve


def _init_worker():
    import signal
    signal.signal(signal.SIGINT, signal.SIG_IGN)
    try:      # a solver that runs away ends as 'error' (undecided) instead of being OOM-killed, which would leave the pool waiting for ever
        import z3
        z3.set_param("memory_max_size", int(os.environ.get("PYVC_Z3_MEM_MB", "3500")))
    except Exception:
        pass


def symexec_function(args):
    key, sidecars, repo = args
    t0 = time.time()
    out = dict(function=key, obligations=[], error=None, unsupported=None, stats={}, assumed=[], calls=[], lib=[])
    obs_out = []
    try:
        import z3
        from . import core
        import itertools
        core._fresh = itertools.count()        # deterministic names per function
        from .core import Sorts
        from .source import Source
        from .engine import Unsupported
        from .run import load_registry
        from .verify import Engine
        try:
            src = Source(repo)
            R = load_registry(sidecars)
            eng = Engine(src, R, Sorts())
            mod, fdef = src.function(key)
            out["file"] = os.path.relpath(mod.path, src.repo)
            out["span"] = list(mod.span(fdef))
            out["sha1"] = mod.sha1(fdef)
            obs = eng.verify(key)
            inl = sorted(getattr(eng, "inlined_src", ()))
            if inl:
                import hashlib
                out["inlined"] = [x.split(":")[0] for x in inl]
                out["sha1"] = hashlib.sha1((out["sha1"] + "|" + "|".join(inl)).encode()).hexdigest()
            out["stats"] = dict(eng.stats)
            out["assumed"] = sorted(eng.assumed)
            out["calls"] = sorted(eng.calls_used)
            out["lib"] = sorted(eng.lib.used)
            for ob in obs:
                d = dict(name=ob.name, base=getattr(ob, "base", ob.name), kind=ob.kind, tags=list(ob.tags), status=ob.status,
                         backend=ob.backend, seconds=0.0, text=ob.text, lineno=ob.lineno, reason="",
                         path=[f"L{ln}:{what}" for ln, what in ob.path])
                d["smt2"] = None if ob.status == "discharged" else solve.to_smt2(ob)
                obs_out.append(d)
        except Unsupported as ex:
            out["unsupported"] = str(ex)
    except Exception as ex:
        out["error"] = repr(ex) + "\n" + traceback.format_exc()
    out["symexec_s"] = round(time.time() - t0, 2)
    return out, obs_out


def _refute_child(conn, fn, task, mem_bytes):
    try:
        import resource
        resource.setrlimit(resource.RLIMIT_AS, (mem_bytes, mem_bytes))
    except Exception:
        pass
    try:
        import z3
        z3.set_param("memory_max_size", int(mem_bytes // (1024 * 1024) * 3 // 4))
    except Exception:
        pass
    try:
        conn.send(fn(task))
    except BaseException as ex:      # MemoryError included
        try:
            conn.send((task[0], {"__error__": "refute: " + repr(ex)[:300]}))
        except Exception:
            pass
    finally:
        conn.close()


def _refute_isolated(ctx, fn, tasks, jobs, tier):
    mem = int(float(os.environ.get("PYVC_REFUTE_MEM_GB", "6")) * 1024 ** 3)
    wall = float(os.environ.get("PYVC_REFUTE_WALL", "100" if tier == "quick" else "900")) * 2 + 120
    par = max(1, min(jobs, 8))
    pending = list(tasks)
    running = []
    wit = {}
    while pending or running:
        while pending and len(running) < par:
            t = pending.pop(0)
            rd, wr = ctx.Pipe(duplex=False)
            pr = ctx.Process(target=_refute_child, args=(wr, fn, t, mem), daemon=True)
            pr.start()
            wr.close()
            running.append((pr, rd, t, time.time()))
        still = []
        for pr, rd, t, t0 in running:
            got = None
            if rd.poll(0.05):
                try:
                    got = rd.recv()
                except (EOFError, OSError):
                    got = (t[0], {"__error__": "refutation child died (memory limit %d GB or crash): no counter-model" % (mem // 1024 ** 3)})
            elif not pr.is_alive():
                got = (t[0], {"__error__": "refutation child died (memory limit %d GB or crash): no counter-model" % (mem // 1024 ** 3)})
            elif time.time() - t0 > wall:
                pr.terminate()
                got = (t[0], {"__error__": f"refutation child stopped after {int(wall)}s: no counter-model"})
            if got is None:
                still.append((pr, rd, t, t0))
            else:
                wit[got[0]] = got[1]
                pr.join(5)
                if pr.is_alive():
                    pr.kill()
                rd.close()
        running = still
    return wit


def run_functions(keys, sidecars=None, tier="quick", seed=0, jobs=None, repo=None, do_refute=True, log=None, only_tag=None):
    from .run import refute_function
    jobs = jobs or int(os.environ.get("PYVC_JOBS", "16"))
    budget = 20000 if tier == "quick" else 120000
    ctx = mp.get_context("fork")
    results = []
    t_all = time.time()
    with ctx.Pool(jobs, initializer=_init_worker, maxtasksperchild=200) as pool:
        per_func = pool.map(symexec_function, [(k, sidecars, repo) for k in keys], chunksize=1)
        if log:
            for out, obs in per_func:
                log(f"symexec {out['function']}: {len(obs)} obligations {out['stats']} {out['symexec_s']}s {out['unsupported'] or out['error'] or ''}")
        if only_tag:
            # obligations that serve other properties only are not this check's business
            for out, obs in per_func:
                for ob in obs:
                    if ob["status"] is None and ob["kind"] != "must_fail" and ob["tags"] and only_tag not in ob["tags"]:
                        ob["status"], ob["backend"] = "discharged", "other-property"
        todo = [(fi, oi) for fi, (out, obs) in enumerate(per_func) for oi, ob in enumerate(obs) if ob["status"] is None]

        def run_batch(items, ms, sd, cvc5, cfg=None):
            res = pool.map(solve._pool_check, [(per_func[fi][1][oi]["smt2"], ms, sd, cvc5, cfg) for fi, oi in items], chunksize=2)
            for (fi, oi), (st, be, reason, secs) in zip(items, res):
                ob = per_func[fi][1][oi]
                ob["status"], ob["backend"], ob["reason"] = st, be, reason
                ob["seconds"] = round(ob["seconds"] + secs, 3)

        # vacuity guards: quick budget only
        guards = [(fi, oi) for fi, oi in todo if per_func[fi][1][oi]["kind"] == "must_fail"]
        real = [(fi, oi) for fi, oi in todo if per_func[fi][1][oi]["kind"] != "must_fail"]
        run_batch(guards, 3000, seed, False)
        run_batch(real, 4000, seed, False)
        open_items = [(fi, oi) for fi, oi in real if per_func[fi][1][oi]["status"] != "discharged"]
        # one representative per obligation name gets the long budgets; siblings follow only if it is discharged
        ATTEMPTS = [(budget, seed, True, None), (budget, seed, False, {"smt.arith.solver": 6}), (budget, seed + 1, False, {"smt.arith.solver": 2}),
                    (budget, seed + 2, False, {"smt.arith.solver": 6})]
        for attempt, (ms, sd, cvc5, cfg) in enumerate(ATTEMPTS):
            if not open_items:
                break
            reps, seen = [], set()
            for fi, oi in open_items:
                nm = (fi, per_func[fi][1][oi]["name"])
                if nm not in seen:
                    seen.add(nm)
                    reps.append((fi, oi))
            run_batch(reps, ms, sd, cvc5, cfg)
            done_names = {(fi, per_func[fi][1][oi]["name"]) for fi, oi in reps if per_func[fi][1][oi]["status"] == "discharged"}
            sib = [(fi, oi) for fi, oi in open_items if (fi, oi) not in reps and (fi, per_func[fi][1][oi]["name"]) in done_names]
            if sib:
                run_batch(sib, ms, sd, cvc5, cfg)
            open_items = [(fi, oi) for fi, oi in open_items if per_func[fi][1][oi]["status"] != "discharged"]
            if log:
                log(f"attempt {attempt}: still open {len(open_items)}")
        if log:
            log(f"solved {len(real)} obligations, open: {len(open_items)} ({round(time.time() - t_all, 1)}s)")
        tasks = []
        for out, obs in per_func:
            g = [ob for ob in obs if ob["kind"] == "must_fail"]
            out["must_fail_checked"] = len(g)
            groups = {}
            for x in g:
                groups.setdefault(x["name"], []).append(x)
            vac = [nm for nm, xs in groups.items() if all(x["status"] == "discharged" for x in xs)]
            out["vacuous"] = bool(vac)
            out["vacuous_points"] = vac
            bases = sorted({ob["base"] for ob in obs if ob["kind"] != "must_fail" and ob["status"] != "discharged"})
            if bases and do_refute and not out["unsupported"] and not out["error"]:
                tasks.append((out["function"], bases, sidecars, tier, seed, repo))
    # phase 3 runs outside the solver pool: one isolated child per function with an address-space limit and a wall limit, so that a
    # finite-scope search that explodes (it once took 64 GB and was OOM-killed, leaving the pool waiting for ever) ends as "no counter-model"
    wit = _refute_isolated(ctx, refute_function, tasks, jobs, tier) if tasks else {}
    if True:
        for out, obs in per_func:
            w = wit.get(out["function"], {})
            for ob in obs:
                if ob["kind"] == "must_fail":
                    continue
                ob.pop("smt2", None)
                if ob["status"] != "discharged":
                    ob["candidates"] = w.get(ob["base"], [])
                    ob["refute_error"] = w.get("__error__")
                else:
                    ob.pop("path", None)
                out["obligations"].append(ob)
            out["wall_s"] = out.get("symexec_s", 0)
            results.append(out)
    return results
