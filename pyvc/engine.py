"""pyvc.engine -- symbolic executor / VC generator for the python subset described in DESIGN §2.

The functions are read from /repo's working tree (pyvc.source) on every run; contracts come
from the sidecars (pyvc.spec).  Calls are expanded by *contract* (modular), never by body,
unless the callee is explicitly marked inline in the sidecar.
"""
from __future__ import annotations
import ast, itertools
import z3
from .core import *
from .source import Source, SourceModule, is_builtin_subclass, BUILTIN_EXC
from .spec import Registry, Contract, Clause, LoopSpec, ClassDecl


class Unsupported(Exception):
    def __init__(self, msg, node=None, path=""):
        ln = getattr(node, "lineno", 0)
        super().__init__(f"UNSUPPORTED {path}:{ln} {msg}")
        self.lineno = ln


def _is_true(z):
    return z3.is_true(z)


class Frame(dict):
    pass


class Engine:
    MUTATORS = {"add", "discard", "remove", "clear", "append", "extend", "insert", "pop", "update",
                "popitem", "setdefault", "sort", "reverse", "difference_update", "intersection_update"}

    def __init__(self, src: Source, reg: Registry, sorts: Sorts | None = None, opts=None):
        self.src, self.reg = src, reg
        self.S = sorts or Sorts()
        self.opts = opts or {}
        self.obligations: list[Obligation] = []
        self.mod: SourceModule | None = None
        self.func_key = ""
        self.func_line0 = 0
        self.contract: Contract | None = None
        self.loop_counter = 0
        self.spec_mode = 0
        self.discovery = 0
        self.calls_used: set[str] = set()      # contracts used at call sites (dependency closure)
        self.assumed: set[str] = set()         # external contracts / library models relied on
        self.unsupported: list[str] = []
        self._prune = z3.Solver()
        self._prune.set("timeout", int(self.opts.get("prune_ms", 150)))
        self.nprune = 0
        from .lib import Lib
        self.lib = Lib(self)
        self._cdecl_cache: dict[str, ClassDecl | None] = {}
        self.dtype_fn = z3.Function("dtype", self.S.Ref, z3.IntSort())
        self._class_ids: dict[str, int] = {}
        self.max_paths = int(self.opts.get("max_paths", 4000))
        self.npaths = 0

    # ------------------------------------------------------------------ class model
    def class_id(self, name: str) -> int:
        if name not in self._class_ids:
            self._class_ids[name] = len(self._class_ids) + 1
        return self._class_ids[name]

    def class_decl(self, name: str) -> ClassDecl | None:
        if name in self._cdecl_cache:
            return self._cdecl_cache[name]
        d = self.reg.class_decl(name)
        if d is None:
            info = self.src.ctypes_class(name) if self.src.find_class(name) else None
            if info and (info["fields"] or "MessageBase" in self.src.mro(name) or "MessageData" in self.src.mro(name)):
                fields = {}
                for fname, kind, meta in info["fields"]:
                    fields[fname] = self.ctypes_field_type(kind, meta)
                d = ClassDecl(name, bases=info["bases"], ctypes=True)
                d.fields = fields
                d.cinfo = info
                d.cfields = {f: (k, m) for f, k, m in info["fields"]}
                # physical heap keys: scalar fields of identical (offset, size, kind) alias across
                # classes, which is what from_buffer() views rely on
                d.phys = {}
                try:
                    lay = {f: off for f, off, size, al in self.src.ctypes_layout(name)[2]}
                except Exception:
                    lay = {}
                for f, k, m in info["fields"]:
                    off = lay.get(f, 0)
                    if k == "int":
                        d.phys[f] = f"int{m['size']}{'s' if m['signed'] else 'u'}@{off}"
                    elif k in ("float", "double", "byte", "char"):
                        d.phys[f] = f"{k}@{off}"
                    elif k == "string":
                        d.phys[f] = f"str{m['length']}@{off}"
                    elif k in ("intarray", "floatarray", "bytearray"):
                        d.phys[f] = f"{k}{m.get('esize', 1)}{'s' if m.get('signed') else 'u'}x{m['length']}@{off}"
        self._cdecl_cache[name] = d
        return d

    def ctypes_field_type(self, kind, meta):
        if kind == "int" or kind == "byte":
            return INT
        if kind in ("float", "double"):
            return FLOAT
        if kind in ("string", "char"):
            return STR
        if kind == "intarray":
            return ("carray", INT, meta["length"])
        if kind == "floatarray":
            return ("carray", FLOAT, meta["length"])
        if kind == "bytearray":
            return ("carray", INT, meta["length"])
        if kind == "struct":
            return ref(meta["cls"])
        if kind == "structarray":
            return ("carray", ref(meta["cls"]), meta["length"])
        raise Unsupported(f"ctypes kind {kind}")

    def sort(self, t):
        return self.S.sort(t)

    def field_decl(self, cls: str, field: str):
        """(declaring class, type, ClassDecl) searching bases; None if unknown"""
        r = self._field_decl(cls, field)
        if r is None and not getattr(self, "_inferring", False):
            r = self.infer_field(cls, field)
        return r

    def infer_field(self, cls: str, field: str):
        """an attribute missing from the class model: take its type from the assignment in __init__
        (the value itself stays unknown: any object of that type, possibly aliased with others)"""
        import ast as _ast
        key = ("inferred", cls, field)
        if key in self._cdecl_cache:
            return self._cdecl_cache[key]
        res = None
        fm = self.src.find_method(cls, "__init__")
        d = self.class_decl(cls)
        if fm is not None and d is not None and not getattr(d, "ctypes", False):
            m, c, fdef = fm
            for node in _ast.walk(fdef):
                tgt = None
                if isinstance(node, _ast.Assign) and len(node.targets) == 1:
                    tgt, val = node.targets[0], node.value
                elif isinstance(node, _ast.AnnAssign) and node.value is not None:
                    tgt, val = node.target, node.value
                if isinstance(tgt, _ast.Attribute) and isinstance(tgt.value, _ast.Name) and tgt.value.id == "self" and tgt.attr == field:
                    self._inferring = True
                    saved = (self.discovery, self.mod)
                    try:
                        st = State()
                        st.alloc = z3.Const("alloc_infer", z3.ArraySort(self.S.Ref, z3.BoolSort()))
                        st.frames = [{"self": Val(ref(cls), z3.Const("self_infer", self.S.Ref)), "__module__": m}]
                        self.discovery += 1
                        vals = [v for _, v in self.ev(val, st) if not isinstance(v, Exc)]
                        if vals and vals[0].t[0] in ("ref", "int", "bool", "float", "str", "set", "list"):
                            t = vals[0].t
                            if t[0] in ("list", "set") and len(t) > 1 and t[1] == ("unknown",):
                                break
                            dd = self.class_decl(c) or d
                            dd.fields[field] = t
                            self.lib.use(f"attribute {c}.{field} is not in the class model: its type {tstr(t)} is taken from the assignment in __init__, its value is arbitrary")
                            res = (c if self.class_decl(c) is not None else cls, t, dd)
                    except Exception:
                        res = None
                    finally:
                        self.discovery, self.mod = saved
                        self._inferring = False
                    break
        self._cdecl_cache[key] = res
        return res

    def _field_decl(self, cls: str, field: str):
        seen = set()
        todo = [cls]
        while todo:
            c = todo.pop(0)
            if c in seen:
                continue
            seen.add(c)
            d = self.class_decl(c)
            if d is not None:
                t = d.field_type(field)
                if t is not None:
                    return c, t, d
                todo.extend(d.bases)
            todo.extend(self.src.class_bases(c))
        return None

    def subclasses_of(self, cls: str) -> list[str]:
        out = []
        names = set(n for n in self.src._class_index if ":" not in n) | set(self.reg.classes)
        for n in names:
            if self.is_subclass(n, cls):
                out.append(n)
        return out

    def is_subclass(self, a: str, b: str) -> bool:
        if a == b or b == "object":
            return True
        if is_builtin_subclass(a, b):
            return True
        seen, todo = set(), [a]
        while todo:
            c = todo.pop()
            if c in seen:
                continue
            seen.add(c)
            if c == b:
                return True
            d = self.reg.class_decl(c)
            if d:
                todo.extend(d.bases)
            todo.extend(self.src.class_bases(c))
            if c in BUILTIN_EXC and BUILTIN_EXC[c]:
                todo.append(BUILTIN_EXC[c])
        return False

    # ------------------------------------------------------------------ heap
    heap_types: dict = {}

    def hkey(self, dcls, field, decl):
        """heap key of a field: physical for ctypes scalars/arrays, (class, field) otherwise"""
        ph = getattr(decl, "phys", None) if decl is not None else None
        if ph and field in ph:
            return "$raw", ph[field]
        return dcls, field

    def heap_arr(self, st: State, cls: str, field: str, t):
        key = (cls, field)
        self.heap_types[key] = t
        if key not in st.heap:
            st.heap[key] = z3.Const(f"H_{cls}.{field}", z3.ArraySort(self.S.Ref, self.sort(t)))
        return st.heap[key]

    def load_field(self, st: State, obj: Val, field: str, node=None) -> Val:
        cls = obj.t[1]
        fd = self.field_decl(cls, field)
        if fd is None:
            raise Unsupported(f"attribute {cls}.{field} is not declared in the class model", node, self.path)
        dcls, t, decl = fd
        hc, hf = self.hkey(dcls, field, decl)
        arr = self.heap_arr(st, hc, hf, t)
        z = z3.Select(arr, obj.z)
        v = Val(t, z)
        if getattr(decl, "ctypes", False) and not self.spec_mode:
            kind, meta = decl.cfields[field]
            if kind == "int":
                lo, hi = self.int_range(meta)
                st.assume(z3.And(z >= lo, z <= hi))
            elif kind == "byte":
                st.assume(z3.And(z >= 0, z <= 255))
        self.assume_type(st, v)
        ch = getattr(decl, "choices", {}).get(field) if decl is not None else None
        if ch:
            v.choices = list(ch)
            if not self.spec_mode:
                st.assume(z3.Or(*[z == c for c in ch]))
        rng = getattr(decl, "ranges", {}).get(field) if decl is not None else None
        if rng and not self.spec_mode:
            st.assume(z3.And(z >= rng[0], z <= rng[1]))
        return v

    def store_field(self, st: State, obj: Val, field: str, val: Val, node=None):
        cls = obj.t[1]
        fd = self.field_decl(cls, field)
        if fd is None:
            raise Unsupported(f"attribute {cls}.{field} is not declared in the class model", node, self.path)
        dcls, t, decl = fd
        hc, hf = self.hkey(dcls, field, decl)
        arr = self.heap_arr(st, hc, hf, t)
        z = self.coerce(val, t, node).z
        st.heap[(hc, hf)] = z3.Store(arr, obj.z, z)
        if st.written is not None:
            st.written.add(("heap", hc, hf, obj.z))

    @staticmethod
    def int_range(meta):
        bits = meta["size"] * 8
        if meta.get("signed", True):
            return -(2 ** (bits - 1)), 2 ** (bits - 1) - 1
        return 0, 2 ** bits - 1

    def is_instance_z(self, z, cls: str):
        """z is null or an instance of cls (dynamic type among the known subclasses)"""
        if cls in ("object", "Exception"):
            return z3.BoolVal(True)
        key = ("subs", cls)
        if key not in self._cdecl_cache:
            self._cdecl_cache[key] = sorted(set(self.subclasses_of(cls)) | {cls})
        subs = self._cdecl_cache[key]
        return z3.Or(z == self.S.null, *[self.dtype_fn(z) == self.class_id(c) for c in subs])

    def assume_type(self, st: State, v: Val):
        if v.t[0] == "ref" and v.z is not None and not self.spec_mode:
            st.assume(self.is_instance_z(v.z, v.t[1]))

    def classvar_fn(self, attr):
        key = ("cvfn", attr)
        if key not in self._cdecl_cache:
            self._cdecl_cache[key] = z3.Function(f"classvar_{attr}", z3.IntSort(), z3.IntSort())
        return self._cdecl_cache[key]

    def classvar_facts(self, st: State, cls: str):
        d = self.class_decl(cls)
        if d is not None and getattr(d, "cinfo", None):
            for a, v in d.cinfo["classvars"].items():
                if isinstance(v, int) and not isinstance(v, bool):
                    st.assume(self.classvar_fn(a)(z3.IntVal(self.class_id(cls))) == v)
                    if a == "type_size" and v >= 0:
                        st.assume(self.lib.sizeof_cls(z3.IntVal(self.class_id(cls))) == v)

    def new_object(self, st: State, cls: str, hint="obj") -> Val:
        r = z3.Const(fresh_name(hint), self.S.Ref)
        st.assume(r != self.S.null)
        st.assume(z3.Not(z3.Select(st.alloc, r)))
        if st.old is not None and st.old.alloc is not None and not st.old.alloc.eq(st.alloc):
            st.assume(z3.Not(z3.Select(st.old.alloc, r)))      # allocation only grows
        st.alloc = z3.Store(st.alloc, r, True)
        st.assume(self.dtype_fn(r) == self.class_id(cls))
        self.classvar_facts(st, cls)
        if st.written is not None:
            st.written.add(("alloc",))
        return Val(ref(cls), r)

    # ------------------------------------------------------------------ values
    def const_val(self, c) -> Val:
        if isinstance(c, bool):
            return Val(BOOL, z3.BoolVal(c), conc=c)
        if isinstance(c, int):
            return Val(INT, z3.IntVal(c), conc=c)
        if isinstance(c, float):
            return Val(FLOAT, z3.FPVal(c, self.S.Float), conc=c)
        if isinstance(c, str):
            return Val(STR, z3.StringVal(c), conc=c)
        if c is None:
            return Val(NONE, self.S.null, conc=None)
        if isinstance(c, bytes):
            return self.lib.bytes_literal(c)
        if isinstance(c, tuple):
            return Val(("tuple",) + tuple(self.const_val(x).t for x in c), tuple(self.const_val(x) for x in c))
        if c is Ellipsis:
            return Val(NONE, self.S.null, conc=None)
        raise Unsupported(f"constant {c!r}")

    def fresh(self, t, hint="v") -> Val:
        if t[0] == "tuple":
            return Val(t, tuple(self.fresh(x, hint) for x in t[1:]))
        return Val(t, z3.Const(fresh_name(hint), self.sort(t)))

    def coerce(self, v: Val, t, node=None) -> Val:
        """coerce a value to the declared type of a slot"""
        if v.t == t:
            return v
        k, vk = t[0], v.t[0]
        if k == "ref" and vk in ("ref", "none", "exc"):
            return Val(t, v.z)
        if k == "none" and vk == "ref":
            return Val(t, v.z)
        if k == "int" and vk == "bool":
            return Val(INT, z3.If(v.z, z3.IntVal(1), z3.IntVal(0)))
        if k == "int" and vk == "none":
            return Val(INT, z3.IntVal(0))      # Optional[int] slot: None is modelled as 0 (both falsy; only truthiness is tested)
        if k == "int" and vk == "str" and v.conc == "":
            return Val(INT, z3.IntVal(0))
        if k == "bool" and vk == "int":
            return Val(BOOL, v.z != 0)
        if k == "float" and vk == "int":
            return Val(FLOAT, z3.fpToFP(z3.RNE(), z3.ToReal(v.z), self.S.Float))
        if k == "float" and vk == "bool":
            return Val(FLOAT, z3.If(v.z, z3.FPVal(1.0, self.S.Float), z3.FPVal(0.0, self.S.Float)))
        if k == vk and k in ("set", "list", "dict", "carray", "map", "ctxvar"):
            if self.sort(t) == self.sort(v.t):
                return Val(t, v.z)
        if k == "ctxvar" and vk != "ctxvar":
            return Val(t, self.coerce(v, t[1], node).z)
        if k == "cls" and vk == "cls" and v.z is None:
            return Val(CLS, z3.IntVal(self.class_id(v.conc)))
        if k == "cls" and vk == "symcls":
            return Val(CLS, v.z)
        if k == "opaque" or vk == "opaque":
            if self.sort(t) == self.sort(v.t):
                return Val(t, v.z)
        raise Unsupported(f"cannot use a {tstr(v.t)} where {tstr(t)} is declared", node, self.path)

    def truth(self, v: Val):
        k = v.t[0]
        if k == "bool":
            return v.z
        if k == "int":
            return v.z != 0
        if k == "float":
            return z3.Not(z3.fpIsZero(v.z))
        if k == "str":
            return z3.Length(v.z) > 0
        if k in ("ref", "exc"):
            d = self.class_decl(v.t[1]) if k == "ref" else None
            if d is not None and getattr(d, "truthy", None):
                return self.spec_call_text(d.truthy, {"self": v})
            return v.z != self.S.null
        if k == "none":
            return z3.BoolVal(False)
        if k == "set":
            return v.z != z3.K(self.sort(v.t[1]), z3.BoolVal(False))
        if k == "list":
            return self.list_len(v) > 0
        if k == "dict":
            dt = self.sort(v.t)
            return dt.dom(v.z) != z3.K(self.sort(v.t[1]), z3.BoolVal(False))
        if k == "cls":
            return z3.BoolVal(True)
        if k in ("ctxvar", "token"):
            return self.truth(Val(v.t[1], v.z))
        if k == "tuple":
            return z3.BoolVal(len(v.z) > 0)
        raise Unsupported(f"truth value of {tstr(v.t)}")

    # list helpers
    def list_len(self, v: Val):
        return self.sort(v.t).len(v.z)

    def list_at(self, v: Val):
        return self.sort(v.t).at(v.z)

    def mk_list(self, t, length, at) -> Val:
        return Val(t, self.sort(t).mk(length, at))

    def empty_list(self, et) -> Val:
        t = ("list", et)
        return self.mk_list(t, z3.IntVal(0), z3.K(z3.IntSort(), self.default_z(et)))

    def default_z(self, t):
        k = t[0]
        if k == "int":
            return z3.IntVal(0)
        if k == "bool":
            return z3.BoolVal(False)
        if k == "float":
            return z3.FPVal(0.0, self.S.Float)
        if k == "str":
            return z3.StringVal("")
        if k in ("ref", "none", "exc"):
            return self.S.null
        if k == "set":
            return z3.K(self.sort(t[1]), z3.BoolVal(False))
        if k == "list":
            return self.empty_list(t[1]).z
        if k == "dict":
            return self.empty_dict(t).z
        if k == "carray":
            return z3.K(z3.IntSort(), self.default_z(t[1]))
        if k == "opaque":
            return z3.Const(f"default_{t[1]}", self.sort(t))
        if k == "map":
            return z3.K(self.sort(t[1]), self.default_z(t[2]))
        if k in ("ctxvar", "token"):
            return self.default_z(t[1])
        if k == "cls":
            return z3.IntVal(0)
        raise Unsupported(f"default of {tstr(t)}")

    def empty_dict(self, t) -> Val:
        dt = self.sort(t)
        return Val(t, dt.mk(z3.K(self.sort(t[1]), z3.BoolVal(False)), z3.K(self.sort(t[1]), self.default_z(t[2]))))

    def empty_set(self, et) -> Val:
        return Val(("set", et), z3.K(self.sort(et), z3.BoolVal(False)))

    # ------------------------------------------------------------------ pruning
    def feasible(self, st: State, extra=None) -> bool:
        """cheap over-approximate feasibility test (quantifier-free part of pc only)"""
        if self.discovery:
            return True
        self.nprune += 1
        s = self._prune
        s.push()
        try:
            for c in st.pc:
                if not z3.is_quantifier(c) and not self._has_quant(c):
                    s.add(c)
            if extra is not None:
                s.add(extra)
            r = s.check()
        finally:
            s.pop()
        return r != z3.unsat

    _hq_cache: dict = {}

    def _has_quant(self, e, depth=0):
        k = e.get_id()
        if k in self._hq_cache:
            return self._hq_cache[k]
        r = False
        if z3.is_quantifier(e):
            r = True
        elif depth < 40:
            for c in e.children():
                if self._has_quant(c, depth + 1):
                    r = True
                    break
        self._hq_cache[k] = r
        return r

    def split(self, st: State, cond):
        """fork on cond: list of (state, bool) for the feasible sides"""
        cond = z3.simplify(cond)
        if z3.is_true(cond):
            return [(st, True)]
        if z3.is_false(cond):
            return [(st, False)]
        out = []
        if self.feasible(st, cond):
            a = st.fork()
            a.assume(cond)
            out.append((a, True))
        if self.feasible(st, z3.Not(cond)):
            b = st.fork() if out else st
            b.assume(z3.Not(cond))
            out.append((b, False))
        return out

    # ------------------------------------------------------------------ obligations
    @property
    def path(self):
        return self.mod.path if self.mod else ""

    def oblige(self, st: State, name: str, kind: str, goal, node=None, tags=(), text=""):
        if self.discovery or self.spec_mode:
            return
        ln = getattr(node, "lineno", 0) if node is not None and not isinstance(node, int) else (node or 0)
        parts = self.conjuncts(goal) if not self.opts.get("nosplit") else [goal]
        for j, g in enumerate(parts):
            g = z3.simplify(g) if not z3.is_quantifier(g) else g
            nm = name if len(parts) == 1 else f"{name}.{j}"
            ob = Obligation(nm, kind, st.pc, g, ln, tags, text, self.func_key, path=list(st.trace[-12:]))
            ob.base = name
            if z3.is_true(g):
                ob.status, ob.backend = "discharged", "syntactic"
            self.obligations.append(ob)

    def conjuncts(self, g, depth=0):
        """split a goal into its top-level conjuncts (also under a leading forall): smaller queries"""
        if z3.is_and(g) and depth < 6:
            out = []
            for c in g.children():
                out.extend(self.conjuncts(c, depth + 1))
            return out
        if z3.is_quantifier(g) and g.is_forall() and depth < 6:
            body = g.body()
            if z3.is_and(body):
                vs = [z3.Const(g.var_name(i), g.var_sort(i)) for i in range(g.num_vars())]
                out = []
                for c in body.children():
                    inst = z3.substitute_vars(c, *reversed(vs))
                    out.extend(self.conjuncts(z3.ForAll(vs, inst), depth + 1))
                return out
            if z3.is_implies(body) and z3.is_and(body.arg(1)):
                vs = [z3.Const(g.var_name(i), g.var_sort(i)) for i in range(g.num_vars())]
                ante = z3.substitute_vars(body.arg(0), *reversed(vs))
                out = []
                for c in body.arg(1).children():
                    inst = z3.substitute_vars(c, *reversed(vs))
                    out.extend(self.conjuncts(z3.ForAll(vs, z3.Implies(ante, inst)), depth + 1))
                return out
        return [g]

    def rel(self, node) -> str:
        ln = getattr(node, "lineno", None)
        if ln is None:
            return "?"
        return f"+{ln - self.func_line0}"
