"""pyvc.export -- the sidecar contracts as plain JSON, for the run-time monitor / replay harness
(which runs under /venv's python, without z3)."""
from __future__ import annotations
import json
from .core import tstr


def export_registry(R) -> dict:
    out = dict(specfuncs={}, contracts={}, classes={}, globals={})
    for n, sf in R.specfuncs.items():
        out["specfuncs"][n] = dict(params=[(p, tstr(t)) for p, t in sf.params], body=sf.text)
    for k, c in R.contracts.items():
        if ":" not in k or k.startswith("<external>"):
            continue
        out["contracts"][k] = dict(
            qualname=c.qualname, params={p: tstr(t) for p, t in c.params.items()},
            requires=[(cl.expr, list(cl.tags)) for cl in c.requires], ensures=[(cl.expr, list(cl.tags)) for cl in c.ensures],
            raises={e: [(cl.expr, list(cl.tags)) for cl in cls] for e, cls in c.raises.items()},
            ghost_entry=c.ghost_entry_src, ghost_exit=c.ghost_exit_src, ghost_after=c.ghost_after_src,
            locals={p: tstr(t) for p, t in c.locals.items()}, ghost_results=list(getattr(c, "ghost_results", {})))
    for k, c in R.contracts.items():
        if k.startswith("<external>") or ":" not in k:
            if c.external and c.requires:
                out["contracts"].setdefault("ext:" + c.qualname, dict(qualname=c.qualname, requires=[(cl.expr, list(cl.tags)) for cl in c.requires],
                                                                   params={p: tstr(t) for p, t in c.params.items()}))
    for n, d in R.classes.items():
        out["classes"][n] = dict(fields={f: tstr(t) for f, t in d.fields.items()}, ghost={f: tstr(t) for f, t in d.ghost.items()})
    for n, t in R.globals.items():
        out["globals"][n] = tstr(t)
    return out


def write(R, path):
    with open(path, "w") as f:
        json.dump(export_registry(R), f)
