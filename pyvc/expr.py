"""pyvc.expr -- expression evaluation (program mode: forking, partial operations raise;
spec mode: single result, operators total, quantifiers / old() / spec functions)."""
from __future__ import annotations
import ast
import z3
from .core import *
from .engine import Unsupported


class ExprMixin:
    # ------------------------------------------------------------------ driver
    def ev(self, e, st: State):
        m = getattr(self, "ev_" + type(e).__name__, None)
        if m is None:
            raise Unsupported(f"expression {type(e).__name__}", e, self.path)
        return m(e, st)

    def sv(self, e, st: State, env: dict | None = None) -> Val:
        """spec-mode evaluation: exactly one value, no state change"""
        self.spec_mode += 1
        try:
            s = st
            if env:
                s = st.fork()
                s.frames[-1].update(env)
            res = self.ev(e, s)
            vals = [v for _, v in res if not isinstance(v, Exc)]
            if len(vals) != 1:
                raise Unsupported(f"spec expression did not evaluate to one value: {ast.unparse(e)[:80]}", e, "spec")
            return vals[0]
        finally:
            self.spec_mode -= 1

    def sv_bool(self, e, st, env=None):
        return self.truth(self.sv(e, st, env))

    def ev_seq(self, exprs, st):
        """evaluate expressions left to right; -> list of (state, [vals] | Exc)"""
        results = [(st, [])]
        for e in exprs:
            nxt = []
            for s, acc in results:
                if isinstance(acc, Exc):
                    nxt.append((s, acc))
                    continue
                for s2, v in self.ev(e, s):
                    if isinstance(v, Exc):
                        nxt.append((s2, v))
                    else:
                        nxt.append((s2, acc + [v]))
            results = nxt
        return results

    # ------------------------------------------------------------------ atoms
    def ev_Constant(self, e, st):
        v = self.const_val(e.value)
        if isinstance(e.value, bytes):
            st.assume(self.lib.nbytes(v.z) == len(e.value))
        return [(st, v)]

    def ev_Name(self, e, st):
        return [(st, self.lookup_name(e.id, st, e))]

    def lookup_name(self, name, st, node=None) -> Val:
        for fr in (st.frames[-1],):
            if name in fr:
                v = fr[name]
                return v
        if self.spec_mode:
            if name == "null" or name == "None":
                return Val(NONE, self.S.null, conc=None)
            if name in self.reg.specfuncs and not self.reg.specfuncs[name].params:
                return self.spec_call(name, [], st)
        if name in st.glob:
            return st.glob[name]
        if name in self.reg.globals:
            return self.global_val(st, name)
        if name in ("True", "False"):
            return self.const_val(name == "True")
        # module-level name: constant, class, imported symbol
        mod = self.cur_module(st)
        v = self.module_name(mod, name)
        if v is not None:
            return v
        if self.spec_mode and self.src.find_class(name) or self.reg.class_decl(name):
            return Val(CLS, None, conc=name)
        import builtins
        if hasattr(builtins, name):
            return Val(("builtin",), None, conc=name)
        raise Unsupported(f"unknown name {name!r}", node, self.path)

    def cur_module(self, st):
        return st.frames[-1].get("__module__", self.mod)

    def global_val(self, st, name):
        if name not in st.glob:
            t = self.reg.globals[name]
            st.glob[name] = Val(t, z3.Const(f"G_{name}", self.sort(t)))
        return st.glob[name]

    def set_global(self, st, name, v: Val):
        t = self.reg.globals.get(name)
        st.glob[name] = self.coerce(v, t) if t else v
        if st.written is not None:
            st.written.add(("glob", name))

    def module_name(self, mod, name):
        """resolve a module-level name of `mod`: constant, class, module alias, function"""
        if mod is None:
            return None
        if name in mod.classes:
            return Val(CLS, None, conc=name)
        if name in mod.functions:
            return Val(("func",), None, conc=f"{mod.name}:{name}")
        if name in mod.assigns:
            try:
                return self.const_val(self.src.eval_const(mod, mod.assigns[name]))
            except (KeyError, Unsupported):
                pass
            gname = f"{mod.name.split('.')[-1]}.{name}"
            if gname in self.reg.globals:
                return Val(("globalvar",), None, conc=gname)
            if name in self.reg.globals:
                return Val(("globalvar",), None, conc=name)
            return Val(("modattr",), None, conc=f"{mod.name}.{name}")
        if name in mod.imports:
            tgt = mod.imports[name]
            if tgt in self.src.modules:
                return Val(("module",), None, conc=tgt)
            if "." in tgt:
                tm, tn = tgt.rsplit(".", 1)
                if tm in self.src.modules:
                    return self.module_name(self.src.modules[tm], tn) or Val(("modattr",), None, conc=tgt)
                if tgt not in ("os.path",):
                    return Val(("modattr",), None, conc=tgt)    # from stdlib_module import name
            return Val(("module",), None, conc=tgt)   # stdlib / third party
        return None

    def ev_JoinedStr(self, e, st):
        # f-string: sub-expressions are evaluated (partial operations count), the text is dropped
        exprs = [v.value for v in e.values if isinstance(v, ast.FormattedValue)]
        out = []
        for s, vals in self.ev_seq(exprs, st):
            if isinstance(vals, Exc):
                out.append((s, vals))
            else:
                if all(v.conc is not None and v.t[0] in ("str", "int") for v in vals) :
                    # fully concrete f-string: keep the text
                    parts, k = [], 0
                    ok = True
                    for v in e.values:
                        if isinstance(v, ast.Constant):
                            parts.append(str(v.value))
                        else:
                            if v.format_spec is not None or v.conversion not in (-1,):
                                ok = False
                                break
                            parts.append(str(vals[k].conc))
                            k += 1
                    if ok:
                        out.append((s, self.const_val("".join(parts))))
                        continue
                out.append((s, self.fresh(STR, "fstr")))
        return out

    def ev_Tuple(self, e, st):
        out = []
        for s, vals in self.ev_seq(e.elts, st):
            if isinstance(vals, Exc):
                out.append((s, vals))
            else:
                out.append((s, Val(("tuple",) + tuple(v.t for v in vals), tuple(vals))))
        return out

    def ev_List(self, e, st):
        out = []
        for s, vals in self.ev_seq(e.elts, st):
            if isinstance(vals, Exc):
                out.append((s, vals))
                continue
            if not vals:
                out.append((s, Val(("list", ("unknown",)), None, conc=[])))
                continue
            et = self.join_types([v.t for v in vals])
            at = z3.K(z3.IntSort(), self.default_z(et))
            for i, v in enumerate(vals):
                at = z3.Store(at, i, self.coerce(v, et).z)
            out.append((s, self.mk_list(("list", et), z3.IntVal(len(vals)), at)))
        return out

    def ev_Set(self, e, st):
        out = []
        for s, vals in self.ev_seq(e.elts, st):
            if isinstance(vals, Exc):
                out.append((s, vals))
                continue
            et = self.join_types([v.t for v in vals])
            z = z3.K(self.sort(et), z3.BoolVal(False))
            for v in vals:
                z = z3.Store(z, self.coerce(v, et).z, True)
            out.append((s, Val(("set", et), z)))
        return out

    def ev_Dict(self, e, st):
        if not e.keys:
            return [(st, Val(("dict", ("unknown",), ("unknown",), "plain"), None, conc={}))]
        raise Unsupported("dict literal", e, self.path)

    def join_types(self, ts):
        t0 = ts[0]
        for t in ts[1:]:
            if t == t0:
                continue
            if t0[0] == "none" and t[0] == "ref":
                t0 = t
            elif t[0] == "none" and t0[0] == "ref":
                pass
            elif t0[0] == "ref" and t[0] == "ref":
                t0 = t0   # keep first (static upper bound unknown); refs share a sort
            elif {t0[0], t[0]} == {"int", "bool"}:
                t0 = INT
            elif {t0[0], t[0]} <= {"int", "bool", "float"}:
                t0 = FLOAT
            else:
                raise Unsupported(f"heterogeneous element types {tstr(t0)} / {tstr(t)}")
        return t0

    def adapt_empty(self, v: Val, t) -> Val:
        """an empty literal [] / {} / set() takes the type of its destination"""
        if v.z is None and v.conc in ([], {}) or (v.t[0] in ("list", "set", "dict") and len(v.t) > 1 and v.t[1] == ("unknown",)):
            if t[0] == "list":
                return self.empty_list(t[1])
            if t[0] == "dict":
                return self.empty_dict(t)
            if t[0] == "set":
                return self.empty_set(t[1])
        return v

    # ------------------------------------------------------------------ operators
    def ev_BoolOp(self, e, st):
        is_and = isinstance(e.op, ast.And)
        if self.spec_mode:
            zs = [self.truth(self.sv(v, st)) for v in e.values]
            return [(st, Val(BOOL, z3.And(*zs) if is_and else z3.Or(*zs)))]
        results = self.ev(e.values[0], st)
        for nxt_e in e.values[1:]:
            out = []
            for s, v in results:
                if isinstance(v, Exc):
                    out.append((s, v))
                    continue
                c = self.truth(v)
                pure = self.is_pure(nxt_e)
                if pure and (v.t == BOOL):
                    # no short-circuit needed for pure right operands of boolean type
                    rs = self.ev(nxt_e, s)
                    if len(rs) == 1 and not isinstance(rs[0][1], Exc) and rs[0][1].t == BOOL:
                        rz = rs[0][1].z
                        out.append((rs[0][0], Val(BOOL, z3.And(c, rz) if is_and else z3.Or(c, rz))))
                        continue
                for s2, side in self.split(s, c):
                    if side != is_and:
                        out.append((s2, v))          # short-circuit: result is the left value
                    else:
                        out.extend(self.ev(nxt_e, s2))
            results = out
        # result types of `a or b` may differ (x.name or "ID"): unify where both are present
        return results

    def is_pure(self, e) -> bool:
        """syntactically free of calls (attribute/subscript loads may still be partial)"""
        for n in ast.walk(e):
            if isinstance(n, (ast.Call, ast.Subscript, ast.Await, ast.Yield, ast.NamedExpr)):
                if isinstance(n, ast.Call) and self.spec_mode:
                    continue
                if isinstance(n, ast.Subscript) and self.spec_mode:
                    continue
                return False
        return True

    def ev_UnaryOp(self, e, st):
        out = []
        for s, v in self.ev(e.operand, st):
            if isinstance(v, Exc):
                out.append((s, v))
            elif isinstance(e.op, ast.Not):
                out.append((s, Val(BOOL, z3.Not(self.truth(v)))))
            elif isinstance(e.op, ast.USub):
                if v.t == FLOAT:
                    out.append((s, Val(FLOAT, z3.fpNeg(v.z))))
                else:
                    v = self.coerce(v, INT, e)
                    out.append((s, Val(INT, -v.z, conc=(-v.conc if v.conc is not None else None))))
            elif isinstance(e.op, ast.UAdd):
                out.append((s, v))
            else:
                raise Unsupported("unary operator", e, self.path)
        return out

    def ev_BinOp(self, e, st):
        out = []
        for s, vals in self.ev_seq([e.left, e.right], st):
            if isinstance(vals, Exc):
                out.append((s, vals))
                continue
            out.extend(self.binop(e.op, vals[0], vals[1], s, e))
        return out

    def binop(self, op, a: Val, b: Val, st, node):
        ka, kb = a.t[0], b.t[0]
        num = ("int", "bool", "float")
        if ka in num and kb in num:
            if "float" in (ka, kb) or isinstance(op, ast.Div):
                fa, fb = self.coerce(a, FLOAT).z, self.coerce(b, FLOAT).z
                rm = z3.RNE()
                if isinstance(op, ast.Add):
                    return [(st, Val(FLOAT, z3.fpAdd(rm, fa, fb)))]
                if isinstance(op, ast.Sub):
                    return [(st, Val(FLOAT, z3.fpSub(rm, fa, fb)))]
                if isinstance(op, ast.Mult):
                    return [(st, Val(FLOAT, z3.fpMul(rm, fa, fb)))]
                if isinstance(op, ast.Div):
                    res = []
                    for s2, zero in self.split(st, z3.fpIsZero(fb)):
                        if zero and not self.spec_mode:
                            res.append((s2, Exc("ZeroDivisionError", "float division", node.lineno)))
                        else:
                            res.append((s2, Val(FLOAT, z3.fpDiv(rm, fa, fb))))
                    return res
                raise Unsupported("float operator", node, self.path)
            ia, ib = self.coerce(a, INT).z, self.coerce(b, INT).z
            ca, cb = a.conc if ka != "float" else None, b.conc if kb != "float" else None
            both = ca is not None and cb is not None and not isinstance(ca, str)
            if isinstance(op, ast.Add):
                return [(st, Val(INT, ia + ib, conc=(int(ca) + int(cb)) if both else None))]
            if isinstance(op, ast.Sub):
                return [(st, Val(INT, ia - ib, conc=(int(ca) - int(cb)) if both else None))]
            if isinstance(op, ast.Mult):
                return [(st, Val(INT, ia * ib, conc=(int(ca) * int(cb)) if both else None))]
            if isinstance(op, ast.Pow):
                if both and int(cb) >= 0:
                    return [(st, self.const_val(int(ca) ** int(cb)))]
                raise Unsupported("symbolic power", node, self.path)
            if isinstance(op, ast.Mod) and b.choices and all(c > 0 for c in b.choices):
                # divisor known to be one of a few positive constants (e.g. an alignment): linear case split
                z = ia % b.choices[-1]
                for c in reversed(b.choices[:-1]):
                    z = z3.If(ib == c, ia % c, z)
                return [(st, Val(INT, z))]
            if isinstance(op, (ast.FloorDiv, ast.Mod)):
                res = []
                for s2, zero in self.split(st, ib == 0):
                    if zero and not self.spec_mode:
                        res.append((s2, Exc("ZeroDivisionError", "integer division or modulo by zero", node.lineno)))
                        continue
                    # python floor semantics; z3 div/mod are euclidean: equal for positive divisors
                    if isinstance(op, ast.FloorDiv):
                        # keep it simple and exact: floor(a/b) = (a - pymod(a,b)) / b
                        pm = z3.If(ib > 0, ia % ib, z3.If(ia % ib == 0, z3.IntVal(0), (ia % ib) + ib))
                        val = z3.If(ib > 0, ia / ib, z3.If(pm == 0, ia / ib, (ia - pm) / ib))
                        res.append((s2, Val(INT, val, conc=(int(ca) // int(cb)) if both and int(cb) != 0 else None)))
                    else:
                        pm = z3.If(ib > 0, ia % ib, z3.If(ia % ib == 0, z3.IntVal(0), (ia % ib) + ib))
                        res.append((s2, Val(INT, pm, conc=(int(ca) % int(cb)) if both and int(cb) != 0 else None)))
                return res
            if isinstance(op, (ast.LShift, ast.RShift, ast.BitAnd, ast.BitOr, ast.BitXor)) and both:
                f = {ast.LShift: lambda x, y: x << y, ast.RShift: lambda x, y: x >> y, ast.BitAnd: lambda x, y: x & y,
                     ast.BitOr: lambda x, y: x | y, ast.BitXor: lambda x, y: x ^ y}[type(op)]
                return [(st, self.const_val(f(int(ca), int(cb))))]
            raise Unsupported(f"integer operator {type(op).__name__}", node, self.path)
        if ka == "set" and kb == "set":
            sa, sb = a.z, self.coerce(self.adapt_empty(b, a.t), a.t).z
            if isinstance(op, ast.BitOr):
                return [(st, Val(a.t, z3.SetUnion(sa, sb)))]
            if isinstance(op, ast.BitAnd):
                return [(st, Val(a.t, z3.SetIntersect(sa, sb)))]
            if isinstance(op, ast.Sub):
                return [(st, Val(a.t, z3.SetDifference(sa, sb)))]
        if ka == "str" and kb == "str" and isinstance(op, ast.Add):
            conc = a.conc + b.conc if a.conc is not None and b.conc is not None else None
            return [(st, Val(STR, z3.Concat(a.z, b.z), conc=conc))]
        if ka == "list" and kb == "list" and isinstance(op, ast.Add):
            return [(st, self.lib.list_concat(a, b))]
        if isinstance(op, ast.Mult) and ((ka == "list" and kb in ("int", "bool")) or (kb == "list" and ka in ("int", "bool"))):
            L, n = (a, b) if ka == "list" else (b, a)
            nz = self.coerce(n, INT).z
            ln = self.list_len(L)
            j = z3.Int(fresh_name("rj"))
            cnt = z3.If(nz > 0, nz, z3.IntVal(0))
            at = z3.Lambda([j], z3.Select(self.list_at(L), z3.If(ln > 0, j % ln, j)))
            return [(st, self.mk_list(L.t, cnt * ln, at))]
        if ka == "str" and isinstance(op, ast.Mult) and a.conc is not None and b.conc is not None:
            return [(st, self.const_val(a.conc * b.conc))]
        raise Unsupported(f"operator {type(op).__name__} on {tstr(a.t)} and {tstr(b.t)}", node, self.path)

    def ev_Compare(self, e, st):
        out = []
        for s, vals in self.ev_seq([e.left] + list(e.comparators), st):
            if isinstance(vals, Exc):
                out.append((s, vals))
                continue
            ordered = [op for op in e.ops if isinstance(op, (ast.Lt, ast.LtE, ast.Gt, ast.GtE))]
            pvs = [v for v in vals if v.t == PYVAL]
            if ordered and pvs and not self.spec_mode:
                # ordering comparison with a python value of unknown type: TypeError unless it is a number
                nonnum = z3.Or(*[self.lib.pv_kind(v.z) == 2 for v in pvs])
                for s2, bad in self.split(s, nonnum):
                    if bad:
                        out.append((s2, Exc("TypeError", "'<' not supported between instances", e.lineno)))
                    else:
                        conj = [self.compare(op, vals[i], vals[i + 1], s2, e) for i, op in enumerate(e.ops)]
                        out.append((s2, Val(BOOL, z3.And(*conj) if len(conj) > 1 else conj[0])))
                continue
            conj = []
            for i, op in enumerate(e.ops):
                conj.append(self.compare(op, vals[i], vals[i + 1], s, e))
            out.append((s, Val(BOOL, z3.And(*conj) if len(conj) > 1 else conj[0])))
        return out

    def compare(self, op, a: Val, b: Val, st, node):
        ka, kb = a.t[0], b.t[0]
        if (a.t == PYVAL or b.t == PYVAL) and isinstance(op, (ast.Lt, ast.LtE, ast.Gt, ast.GtE)):
            def real(v):
                if v.t == PYVAL:
                    return self.lib.pv_num(v.z)
                if v.t[0] == "float":
                    return z3.fpToReal(v.z)
                if v.t[0] in ("int", "bool"):
                    return z3.ToReal(self.coerce(v, INT).z)
                raise Unsupported(f"comparison of a python value with {tstr(v.t)}", node, self.path)
            ra, rb = real(a), real(b)
            return {ast.Lt: lambda: ra < rb, ast.LtE: lambda: ra <= rb, ast.Gt: lambda: ra > rb, ast.GtE: lambda: ra >= rb}[type(op)]()

        if isinstance(op, (ast.In, ast.NotIn)):
            z = self.contains(b, a, st, node)
            return z if isinstance(op, ast.In) else z3.Not(z)
        if isinstance(op, (ast.Is, ast.IsNot, ast.Eq, ast.NotEq)):
            neg = isinstance(op, (ast.IsNot, ast.NotEq))
            z = self.equal(a, b, node, identity=isinstance(op, (ast.Is, ast.IsNot)))
            return z3.Not(z) if neg else z
        num = ("int", "bool", "float")
        if ka in num and kb in num:
            if "float" in (ka, kb):
                fa, fb = self.coerce(a, FLOAT).z, self.coerce(b, FLOAT).z
                f = {ast.Lt: z3.fpLT, ast.LtE: z3.fpLEQ, ast.Gt: z3.fpGT, ast.GtE: z3.fpGEQ}[type(op)]
                return f(fa, fb)
            ia, ib = self.coerce(a, INT).z, self.coerce(b, INT).z
            return {ast.Lt: lambda: ia < ib, ast.LtE: lambda: ia <= ib, ast.Gt: lambda: ia > ib,
                    ast.GtE: lambda: ia >= ib}[type(op)]()
        if ka == "set" and kb == "set" and isinstance(op, (ast.LtE, ast.GtE)):
            x = z3.Const(fresh_name("x"), self.sort(a.t[1]))
            sub, sup = (a.z, b.z) if isinstance(op, ast.LtE) else (b.z, a.z)
            return z3.ForAll([x], z3.Implies(z3.Select(sub, x), z3.Select(sup, x)))
        raise Unsupported(f"comparison {type(op).__name__} on {tstr(a.t)} / {tstr(b.t)}", node, self.path)

    def equal(self, a: Val, b: Val, node=None, identity=False):
        ka, kb = a.t[0], b.t[0]
        if ka in ("cls", "symcls") or kb in ("cls", "symcls"):
            def cid(v):
                if v.t[0] == "symcls" or (v.t[0] == "cls" and v.z is not None):
                    return v.z
                if v.t[0] == "cls":
                    return z3.IntVal(self.class_id(v.conc))
                if v.t[0] == "int":
                    return v.z
                return None
            ca, cb = cid(a), cid(b)
            if ca is not None and cb is not None:
                return ca == cb
        if ka in ("cls", "builtin") and kb in ("cls", "builtin"):
            return z3.BoolVal(a.conc == b.conc)
        if ka == "tuple" and kb == "tuple":
            if len(a.z) != len(b.z):
                return z3.BoolVal(False)
            return z3.And(*[self.equal(x, y, node) for x, y in zip(a.z, b.z)]) if a.z else z3.BoolVal(True)
        refs = ("ref", "none", "exc")
        if ka in refs and kb in refs:
            return a.z == b.z
        num = ("int", "bool", "float")
        if ka in num and kb in num:
            if "float" in (ka, kb):
                return z3.fpEQ(self.coerce(a, FLOAT).z, self.coerce(b, FLOAT).z)
            if ka == kb:
                return a.z == b.z
            return self.coerce(a, INT).z == self.coerce(b, INT).z
        if (ka in refs) != (kb in refs):
            # e.g. comparing a str with None
            if ka == "none" or kb == "none":
                return z3.BoolVal(False)
        if ka == kb and self.sort(a.t) == self.sort(b.t):
            return a.z == b.z
        b2 = self.adapt_empty(b, a.t)
        a2 = self.adapt_empty(a, b.t)
        if b2 is not b:
            return a.z == b2.z
        if a2 is not a:
            return a2.z == b.z
        raise Unsupported(f"equality between {tstr(a.t)} and {tstr(b.t)}", node, self.path)

    def contains(self, cont: Val, x: Val, st, node=None):
        k = cont.t[0]
        if k == "set":
            return z3.Select(cont.z, self.coerce(x, cont.t[1], node).z)
        if k == "dict":
            if cont.t[3] == "default" and self.spec_mode:
                pass
            return z3.Select(self.sort(cont.t).dom(cont.z), self.coerce(x, cont.t[1], node).z)
        if k == "list":
            i = z3.Int(fresh_name("i"))
            xz = self.coerce(x, cont.t[1], node).z
            return z3.Exists([i], z3.And(0 <= i, i < self.list_len(cont), z3.Select(self.list_at(cont), i) == xz))
        if k == "tuple":
            return z3.Or(*[self.equal(x, y, node) for y in cont.z]) if cont.z else z3.BoolVal(False)
        if k == "dictview":
            return self.contains(cont.z[1], x, st, node) if cont.z[0] == "keys" else self._view_contains(cont, x)
        if k == "str" and x.t[0] == "str":
            return z3.Contains(cont.z, x.z)
        raise Unsupported(f"'in' on {tstr(cont.t)}", node, self.path)

    def ev_IfExp(self, e, st):
        out = []
        for s, c in self.ev(e.test, st):
            if isinstance(c, Exc):
                out.append((s, c))
                continue
            cz = self.truth(c)
            if self.spec_mode:
                a = self.sv(e.body, s)
                b = self.sv(e.orelse, s)
                b = self.coerce(b, a.t) if a.t != b.t else b
                out.append((s, Val(a.t, z3.If(cz, a.z, b.z))))
                continue
            for s2, side in self.split(s, cz):
                out.extend(self.ev(e.body if side else e.orelse, s2))
        return out

    # ------------------------------------------------------------------ attribute / subscript
    def ev_Attribute(self, e, st):
        out = []
        for s, base in self.ev(e.value, st):
            if isinstance(base, Exc):
                out.append((s, base))
                continue
            out.extend(self.get_attr(base, e.attr, s, e))
        return out

    def get_attr(self, base: Val, attr: str, st, node):
        k = base.t[0]
        if k == "module":
            mn = base.conc
            if mn in self.src.modules:
                v = self.module_name(self.src.modules[mn], attr)
                if v is None:
                    raise Unsupported(f"module attribute {mn}.{attr}", node, self.path)
                return [(st, v)]
            if attr.isupper() and mn in ("socket", "select", "errno", "logging"):
                return [(st, Val(INT, z3.Int(f"const_{mn}_{attr}")))]
            return [(st, Val(("modattr",), None, conc=f"{mn}.{attr}"))]
        if k == "modattr":
            return [(st, Val(("modattr",), None, conc=f"{base.conc}.{attr}"))]
        if k == "globalvar":
            return [(st, Val(("boundmethod",), (base, attr)))]
        if k == "cls":
            return self.lib.class_attr(base.conc, attr, st, node)
        if k == "carray" and attr == "_type_":
            # element C type of a ctypes array value: only its size is modelled (1, 2, 4 or 8), not its signedness
            sz = z3.Int(fresh_name("esize"))
            st.assume(z3.Or(sz == 1, sz == 2, sz == 4, sz == 8))
            return [(st, Val(("elemctype",), sz))]
        if k in ("symcls", "cls") and attr in ("__name__", "__qualname__"):
            return [(st, self.fresh(STR, "clsname") if k == "symcls" else self.const_val(base.conc))]
        if k == "symcls" and attr in ("from_buffer", "from_buffer_copy"):
            return [(st, Val(("boundmethod",), (base, attr)))]
        if k in ("ref", "exc"):
            cls = base.t[1] if k == "ref" else "Exception"
            # ghost/declared field first
            fd = self.field_decl(cls, attr)
            if fd is not None:
                # null dereference is a partial operation
                res = []
                if not self.spec_mode and self.opts.get("check_null", True):
                    for s2, isnull in self.split(st, base.z == self.S.null):
                        if isnull:
                            res.append((s2, Exc("AttributeError", f"None.{attr}", node.lineno)))
                        else:
                            res.extend(self.lib.field_get(base, attr, s2, node))
                    return res
                return self.lib.field_get(base, attr, st, node)
            # property / method
            found = self.find_member(cls, attr)
            if found is not None:
                kind, info = found
                if kind == "property":
                    return self.call_member(base, cls, attr, [], {}, st, node, is_property=True)
                return [(st, Val(("boundmethod",), (base, attr)))]
            # class variables of ctypes message classes (type_id, type_size ...)
            d = self.class_decl(cls)
            if d is not None and getattr(d, "cinfo", None) and attr in d.cinfo["classvars"]:
                val = d.cinfo["classvars"][attr]
                if isinstance(val, int) and not isinstance(val, bool) and len(self.subclasses_of(cls)) > 1:
                    # the attribute is looked up on the dynamic class
                    return [(st, Val(INT, self.classvar_fn(attr)(self.dtype_fn(base.z))))]
                return [(st, self.const_val(val))]
            if d is not None and getattr(d, "cinfo", None) is not None:
                # declared on the generated subclasses only (e.g. type_hash): looked up on the dynamic class
                for sub in self.subclasses_of(cls):
                    sd = self.class_decl(sub)
                    if sd is not None and getattr(sd, "cinfo", None) and isinstance(sd.cinfo["classvars"].get(attr), int):
                        self.lib.use(f"class attribute {attr} is present on every generated message class (v2 definitions)")
                        return [(st, Val(INT, self.classvar_fn(attr)(self.dtype_fn(base.z))))]
            try:
                return self.lib.class_attr(cls, attr, st, node)
            except Unsupported:
                pass
            return self.lib.dynamic_attr(base, attr, st, node)
        if k in ("set", "list", "dict", "str", "carray", "tuple", "float", "int", "opaque", "dictview", "bytes", "ctxvar", "map", "concdict", "dynbytes"):
            return [(st, Val(("boundmethod",), (base, attr), origin=node.value if isinstance(node, ast.Attribute) else None))]
        raise Unsupported(f"attribute .{attr} on {tstr(base.t)}", node, self.path)

    def find_member(self, cls: str, name: str):
        """('property'|'method', (module, class, def)) or contract-only members"""
        # contract declared on this class or a base (externals included)
        for c in self.class_chain(cls):
            con = self.reg.find_contract(f"{c}.{name}")
            if con is not None and con.external:
                return ("property" if getattr(con, "is_property", False) else "method", None)
        fm = self.src.find_method(cls, name)
        if fm is not None:
            m, c, fdef = fm
            isprop = any((isinstance(d, ast.Name) and d.id == "property") or
                         (isinstance(d, ast.Attribute) and d.attr in ("getter",)) for d in fdef.decorator_list)
            return ("property" if isprop else "method", fm)
        return None

    def class_chain(self, cls):
        seen, todo, out = set(), [cls], []
        while todo:
            c = todo.pop(0)
            if c in seen:
                continue
            seen.add(c)
            out.append(c)
            d = self.reg.class_decl(c)
            if d:
                todo.extend(d.bases)
            todo.extend(self.src.class_bases(c))
        return out

    def ev_Subscript(self, e, st):
        out = []
        if isinstance(e.slice, ast.Slice):
            parts = [e.value] + [x for x in (e.slice.lower, e.slice.upper, e.slice.step) if x is not None]
            for s, vals in self.ev_seq(parts, st):
                if isinstance(vals, Exc):
                    out.append((s, vals))
                    continue
                it = iter(vals[1:])
                lo = next(it) if e.slice.lower is not None else None
                hi = next(it) if e.slice.upper is not None else None
                step = next(it) if e.slice.step is not None else None
                out.extend(self.lib.slice_get(vals[0], lo, hi, step, s, e))
            return out
        for s, vals in self.ev_seq([e.value, e.slice], st):
            if isinstance(vals, Exc):
                out.append((s, vals))
                continue
            out.extend(self.subscript_get(vals[0], vals[1], s, e))
        return out

    def subscript_get(self, base: Val, idx: Val, st, node):
        k = base.t[0]
        if k == "dict":
            dt = self.sort(base.t)
            kz = self.coerce(idx, base.t[1], node).z
            val = Val(base.t[2], z3.Select(dt.val(base.z), kz))
            flavor = base.t[3]
            if self.spec_mode:
                if flavor in ("default", "counter"):
                    return [(st, Val(base.t[2], z3.If(z3.Select(dt.dom(base.z), kz), val.z, self.default_z(base.t[2]))))]
                return [(st, val)]
            if flavor == "counter":
                return [(st, Val(INT, z3.If(z3.Select(dt.dom(base.z), kz), val.z, z3.IntVal(0))))]
            if flavor == "default":
                # read of a missing key inserts the default; done by the caller when base is an lvalue
                return [(st, Val(base.t[2], z3.If(z3.Select(dt.dom(base.z), kz), val.z, self.default_z(base.t[2])),
                                 origin=("defaultdict-read", kz)))]
            res = []
            for s2, present in self.split(st, z3.Select(dt.dom(base.z), kz)):
                if present:
                    res.append((s2, val))
                else:
                    res.append((s2, Exc("KeyError", "missing key", node.lineno)))
            return res
        if k == "list":
            i = self.coerce(idx, INT, node).z
            n = self.list_len(base)
            if self.spec_mode:
                return [(st, Val(base.t[1], z3.Select(self.list_at(base), i)))]
            res = []
            for s2, ok in self.split(st, z3.And(i >= -n, i < n)):
                if ok:
                    j = z3.If(i < 0, i + n, i)
                    res.append((s2, Val(base.t[1], z3.Select(self.list_at(base), z3.simplify(j)))))
                else:
                    res.append((s2, Exc("IndexError", "list index out of range", node.lineno)))
            return res
        if k == "carray":
            i = self.coerce(idx, INT, node).z
            n = base.t[2]
            if self.spec_mode:
                return [(st, Val(base.t[1], z3.Select(base.z, i)))]
            res = []
            for s2, ok in self.split(st, z3.And(i >= -n, i < n)):
                if ok:
                    j = z3.simplify(z3.If(i < 0, i + n, i))
                    res.append((s2, Val(base.t[1], z3.Select(base.z, j))))
                else:
                    res.append((s2, Exc("IndexError", "invalid index", node.lineno)))
            return res
        if k == "map":
            return [(st, Val(base.t[2], z3.Select(base.z, self.coerce(idx, base.t[1], node).z)))]
        if k == "tuple":
            if idx.conc is None:
                raise Unsupported("symbolic tuple index", node, self.path)
            return [(st, base.z[idx.conc])]
        if k == "set" and self.spec_mode:
            return [(st, Val(BOOL, z3.Select(base.z, self.coerce(idx, base.t[1], node).z)))]
        if k == "str" and base.conc is not None and idx.conc is not None:
            return [(st, self.const_val(base.conc[idx.conc]))]
        return self.lib.subscript_other(base, idx, st, node)

    # ------------------------------------------------------------------ comprehension (restricted)
    def ev_ListComp(self, e, st):
        return self.lib.comprehension(e, st, "list")

    def ev_GeneratorExp(self, e, st):
        return self.lib.comprehension(e, st, "gen")

    def ev_SetComp(self, e, st):
        return self.lib.comprehension(e, st, "set")

    def ev_Lambda(self, e, st):
        return [(st, Val(("lambda",), e))]

    def ev_Starred(self, e, st):
        raise Unsupported("starred expression", e, self.path)

    # ------------------------------------------------------------------ spec functions
    def spec_call(self, name, args, st) -> Val:
        sf = self.reg.specfuncs[name]
        if len(args) != len(sf.params):
            raise Unsupported(f"spec function {name} expects {len(sf.params)} arguments")
        if getattr(sf, "opaque", False) and not (self.contract is not None and name in getattr(self.contract, "reveal", ())):
            cargs = [self.coerce(a, pt) for (pn, pt), a in zip(sf.params, args)]
            fn = z3.Function("opq_" + name, *[self.sort(pt) for _, pt in sf.params], z3.BoolSort())
            return Val(BOOL, fn(*[c.z for c in cargs]))
        env = {}
        for (pn, pt), a in zip(sf.params, args):
            env[pn] = self.coerce(a, pt)
        s = st.fork()
        s.frames.append(env)
        self.spec_mode += 1
        try:
            res = self.ev(sf.body, s)
        finally:
            self.spec_mode -= 1
        return res[0][1]

    def spec_call_text(self, text, env):
        tree = ast.parse(text, mode="eval").body
        st = State()
        st.frames = [dict(env)]
        return self.truth(self.sv(tree, st))
