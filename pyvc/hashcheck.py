"""pyvc.hashcheck -- C13: the version hash as a function of (name, id, ordered field list).

Contract of Parser.handle_message_def / handle_signal / handle_struct (stated once, below, over *templates*):

    the `hash` stored in the MDF/SDF is  sha256(raw.encode()).hexdigest()  where `raw` is a text template
      (T1) built from nothing but the definition's name, its id and - in document order - the (field name, type text)
           pairs of its field list (or the name of the reused field list): no file name, no parser state;
      (T2) in which every one of those elements occurs verbatim (no truncation, no conversion), on every branch;
      (T3) that parses uniquely: every element is followed by a literal separator that cannot occur inside it
           (identifier / integer / one-line type text), so two different element lists give two different texts;
      (T4) the id that is hashed is the id that is registered (type_id=..., validate_msg_id(name, ...)).
    every back end prints the first eight hex digits of that same field (E1), and Client.send_message stamps
    header.version = type_hash (proved by the engine, contracts/client_contracts.py, tag C13).

The template of `raw` is computed from the real AST on every run by abstract evaluation of the string-building
statements (f-strings, "sep".join over a comprehension of dict items, textwrap.dedent, if/else on isinstance);
anything outside that language makes the obligation *undecided* (exit 2), never a violation.  Constructs that are
known to break the property (sorted/set/reversed/keys()/values() over the field list, a slice or format spec on an
element, an element from `self`) are refutations.

Assumed: textwrap.dedent is a function of its argument; sha256 is a function (no collision-freedom is claimed:
"changes" is proved for the hashed text).  Lexical classes (from the grammar: check_name, YAML keys, int ids):
names and field names contain neither ':' nor newline; ids are integers; type texts and reused list names are
single-line YAML scalars.
"""
from __future__ import annotations
import ast, os, time

HANDLERS = {
    # function -> (constructor, has_id)
    "handle_message_def": ("MDF", True),
    "handle_signal": ("MDF", True),
    "handle_struct": ("SDF", False),
}


class Undecided(Exception):
    pass


class Refuted(Exception):
    pass


def src(n):
    return ast.unparse(n)


class TemplateEval:
    """abstract evaluation of the straight-line / if-else string building code of one handler"""

    def __init__(self, fdef):
        self.fdef = fdef
        self.params = [a.arg for a in fdef.args.args]
        self.defname = self.params[1]     # name
        self.dparam = self.params[2]      # mdf / sdf

    # --- expressions -> template terms
    # ("lit", s) ("var", key) ("cat", [..]) ("join", sep, ("map", iterable_key, (k, v), body)) ("charjoin", sep, t) ("dedent", t)
    # ("ite", condsrc, a, b) ("sha", t) ("opaque", src)
    def ev(self, e, env):
        if isinstance(e, ast.Constant) and isinstance(e.value, str):
            return ("lit", e.value)
        if isinstance(e, ast.Name):
            if e.id in env:
                return env[e.id]
            if e.id == self.defname:
                return ("var", "name")
            return ("opaque", e.id)
        if isinstance(e, ast.JoinedStr):
            parts = []
            for v in e.values:
                if isinstance(v, ast.Constant):
                    parts.append(("lit", v.value))
                elif isinstance(v, ast.FormattedValue):
                    if v.conversion != -1 or v.format_spec is not None:
                        raise Refuted(f"element {src(v.value)} is formatted with a conversion / format spec (not verbatim)")
                    parts.append(self.leaf(v.value, env))
            return ("cat", parts)
        if isinstance(e, (ast.ListComp, ast.GeneratorExp)):
            return self.ev_comp(e, env)
        if isinstance(e, ast.BinOp) and isinstance(e.op, ast.Add):
            return ("cat", [self.ev(e.left, env), self.ev(e.right, env)])
        if isinstance(e, ast.Call):
            f = e.func
            if isinstance(f, ast.Attribute) and f.attr == "join" and isinstance(f.value, ast.Constant) and len(e.args) == 1:
                return self.mkjoin(f.value.value, self.ev_list(e.args[0], env))
            if src(f) in ("textwrap.dedent", "dedent") and len(e.args) == 1:
                return ("dedent", self.ev(e.args[0], env))
            if isinstance(f, ast.Attribute) and f.attr == "hexdigest" and isinstance(f.value, ast.Call) and src(f.value.func) in ("sha256", "hashlib.sha256"):
                a = f.value.args[0]
                if isinstance(a, ast.Call) and isinstance(a.func, ast.Attribute) and a.func.attr == "encode":
                    return ("sha", self.ev(a.func.value, env))
                raise Undecided(f"sha256 argument {src(a)}")
            if isinstance(f, ast.Name) and f.id == "str" and len(e.args) == 1:
                return self.leaf(e.args[0], env)
        return self.leaf(e, env)

    def leaf(self, e, env):
        s = src(e)
        if isinstance(e, ast.Name):
            if e.id in env:
                return env[e.id]
            if e.id == self.defname:
                return ("var", "name")
        if isinstance(e, ast.Subscript) and isinstance(e.value, ast.Name) and e.value.id == self.dparam and isinstance(e.slice, ast.Constant):
            return ("var", str(e.slice.value))      # mdf['id'] -> "id", mdf['fields'] -> "fields"
        if isinstance(e, ast.Subscript) and isinstance(e.slice, ast.Slice):
            raise Refuted(f"element {s} is sliced (not verbatim)")
        for n in ast.walk(e):
            if isinstance(n, ast.Name) and n.id == "self":
                raise Refuted(f"the hashed text reads parser state: {s}")
            if isinstance(n, ast.Call) and src(n.func) in ("id", "hash", "time.time", "os.getcwd"):
                raise Refuted(f"the hashed text reads {src(n.func)}()")
        return ("opaque", s)

    def mkjoin(self, sep, t):
        if t[0] == "ite":
            return ("ite", t[1], self.mkjoin(sep, t[2]), self.mkjoin(sep, t[3]))
        if t[0] in ("map", "refuted", "opaque"):
            return ("join", sep, t) if t[0] == "map" else t
        return ("join", sep, ("chars", t))      # joining a *string* interleaves the separator between its characters

    def ev_list(self, e, env):
        """argument of sep.join"""
        if isinstance(e, ast.Name) and e.id in env:
            return env[e.id]
        if isinstance(e, (ast.ListComp, ast.GeneratorExp)):
            return self.ev_comp(e, env)
        raise Undecided(f"join over {src(e)}")

    def ev_comp(self, e, env):
        if len(e.generators) != 1 or e.generators[0].ifs:
            raise Refuted(f"the field list is filtered or nested in {src(e)}")
        g = e.generators[0]
        it = g.iter
        if not (isinstance(it, ast.Call) and isinstance(it.func, ast.Attribute) and not it.args):
            if isinstance(it, ast.Call) and src(it.func) in ("sorted", "set", "reversed", "frozenset"):
                raise Refuted(f"the field list is iterated through {src(it.func)}(): the document order of the fields does not reach the hash")
            raise Undecided(f"comprehension over {src(it)}")
        meth = it.func.attr
        base = self.leaf(it.func.value, env)
        if base != ("var", "fields"):
            raise Refuted(f"the comprehension iterates over {src(it.func.value)}, not over the definition's field list")
        if meth in ("keys", "values"):
            raise Refuted(f"only the {meth}() of the field list reach the hash")
        if meth != "items":
            raise Undecided(f"comprehension over {src(it)}")
        if not (isinstance(g.target, ast.Tuple) and len(g.target.elts) == 2 and all(isinstance(x, ast.Name) for x in g.target.elts)):
            raise Undecided(f"comprehension target {src(g.target)}")
        k, v = g.target.elts[0].id, g.target.elts[1].id
        env2 = dict(env)
        env2[k] = ("var", "fname")
        env2[v] = ("var", "ftype")
        return ("map", "fields.items()", self.ev(e.elt, env2))

    # --- statements
    def run(self):
        """returns list of (path condition list, ctor call node, env) for every constructor call reached"""
        out = []
        self.block(self.fdef.body, {}, [], out)
        return out

    def block(self, stmts, env, pc, out):
        """returns env after the block or None if it always leaves"""
        for i, st in enumerate(stmts):
            if isinstance(st, (ast.Return, ast.Raise)):
                self.scan_ctor(st, env, pc, out)
                return None
            if isinstance(st, ast.Assign) and len(st.targets) == 1 and isinstance(st.targets[0], ast.Name):
                self.scan_ctor(st, env, pc, out)
                tgt = st.targets[0].id
                try:
                    val = self.ev(st.value, env)
                except Undecided as ex:
                    val = ("opaque", f"<{ex}>")
                except Refuted as ex:
                    val = ("refuted", str(ex))
                env = dict(env)
                env[tgt] = val
                continue
            if isinstance(st, ast.AnnAssign) and st.value is None:
                continue
            if isinstance(st, ast.If):
                c = src(st.test)
                e1 = self.block(st.body, dict(env), pc + [c], out)
                e2 = self.block(st.orelse, dict(env), pc + [f"not ({c})"], out) if st.orelse else dict(env)
                if e1 is None and e2 is None:
                    return None
                if e1 is None:
                    env = e2
                    pc = pc + [f"not ({c})"]
                elif e2 is None:
                    env = e1
                    pc = pc + [c]
                else:
                    merged = {}
                    for k in set(e1) | set(e2):
                        a, b = e1.get(k), e2.get(k)
                        if a == b:
                            merged[k] = a
                        elif a is not None and b is not None:
                            merged[k] = ("ite", c, a, b)
                    env = merged
                continue
            self.scan_ctor(st, env, pc, out)
            # loops / with / try that assign the tracked names make them opaque
            for n in ast.walk(st):
                if isinstance(n, ast.Name) and isinstance(n.ctx, ast.Store) and n.id in env:
                    env = dict(env)
                    env[n.id] = ("opaque", f"assigned in {type(st).__name__} at line {st.lineno}")
        return env

    def scan_ctor(self, st, env, pc, out):
        for n in ast.walk(st):
            if isinstance(n, ast.Call) and isinstance(n.func, ast.Name) and n.func.id in ("MDF", "SDF"):
                out.append((list(pc), n, dict(env)))


def flatten(t):
    """branches of a template: list of (conds, linear list of atoms) ; atoms: ("lit",s) ("var",k) ("joinmap",sep,[atoms]) ("chars",sep,[atoms])"""
    k = t[0]
    if k in ("lit", "var"):
        return [([], [t])]
    if k == "refuted":
        raise Refuted(t[1])
    if k == "opaque":
        raise Undecided(f"part of the hashed text is outside the template language: {t[1]}")
    if k == "cat":
        acc = [([], [])]
        for p in t[1]:
            nxt = []
            for c1, a1 in acc:
                for c2, a2 in flatten(p):
                    nxt.append((c1 + c2, a1 + a2))
            acc = nxt
        return acc
    if k == "dedent":
        return flatten(t[1])       # identity on texts whose first line is not indented (the definition name comes first: checked by T3)
    if k == "ite":
        return [([t[1]] + c, a) for c, a in flatten(t[2])] + [([f"not ({t[1]})"] + c, a) for c, a in flatten(t[3])]
    if k == "join":
        sep, arg = t[1], t[2]
        if arg[0] == "map":
            out = []
            for c, a in flatten(arg[2]):
                out.append((c, [("joinmap", sep, a)]))
            return out
        if arg[0] == "chars":
            return [(c, [("chars", sep, a)]) for c, a in flatten(arg[1])]
        raise Undecided(f"join over {arg[0]}")
    if k == "sha":
        raise Undecided("nested digest")
    raise Undecided(f"template node {k}")


CLASS_EXCLUDES = {          # characters that cannot occur in an element of this class
    "name": ":\n", "fname": ":\n", "id": ":\n abcdefghijklmnopqrstuvwxyzABCDEFGHIJKLMNOPQRSTUVWXYZ_", "ftype": "\n", "fields": "\n",
}


def atoms_vars(atoms):
    vs = []
    for a in atoms:
        if a[0] == "var":
            vs.append(a[1])
        elif a[0] in ("joinmap", "chars"):
            vs.extend(atoms_vars(a[2]))
    return vs


def unique_parse(atoms, follow_end=True, end_sep=None):
    """every variable atom is directly followed by a literal whose first character is excluded from its class
    (or by the end of the text / the join separator for the last one)"""
    problems = []
    for i, a in enumerate(atoms):
        nxt = atoms[i + 1] if i + 1 < len(atoms) else None
        if a[0] == "var":
            ex = CLASS_EXCLUDES.get(a[1])
            if ex is None:
                problems.append(f"element {a[1]} has no lexical class")
                continue
            if nxt is None:
                if end_sep is not None and not (end_sep and end_sep[0] in ex):
                    problems.append(f"{a[1]} is followed by the join separator {end_sep!r}, which may occur inside it")
                continue
            if nxt[0] != "lit" or not nxt[1] or nxt[1][0] not in ex:
                problems.append(f"{a[1]} is not followed by a separator that cannot occur inside it (next: {nxt[:2]!r})")
        elif a[0] == "joinmap":
            problems += unique_parse(a[2], end_sep=a[1])
            if nxt is not None:
                problems.append("text follows the field list without a separator distinct from the list separator")
        elif a[0] == "chars":
            problems += unique_parse(a[2])
    return problems


def emit_sites(repo):
    """every formatted occurrence of <x>.hash in the back ends"""
    base = os.path.join(repo, "src", "pyrtma", "compilers")
    sites = []
    for fn in sorted(os.listdir(base)):
        if not fn.endswith(".py"):
            continue
        tree = ast.parse(open(os.path.join(base, fn)).read())
        for f in ast.walk(tree):
            if not isinstance(f, ast.FunctionDef):
                continue
            for n in ast.walk(f):
                if isinstance(n, ast.FormattedValue):
                    s = src(n.value)
                    if ".hash" in s:
                        sites.append((fn, f.name, n.lineno, n))
    return sites


def check(tier="quick", seed=0, repo="/repo"):
    t0 = time.time()
    res = dict(obligations=0, discharged=0, open={}, discharged_names=[], samples=[], by_backend={}, seconds=0.0, crashes=[], undecided=[], bounded=[],
               assumptions=["textwrap.dedent and sha256 are functions of their argument; no collision-freedom of sha256 or of its 32-bit prefix is claimed ('changes' is proved for the hashed text)",
                            "lexical classes: definition and field names contain neither ':' nor newline (YAML keys, check_name), ids are integers, type texts are single-line YAML scalars",
                            "template analysis (abstract evaluation of the string-building statements of the three handlers) is part of pyvc; it is not an SMT proof",
                            "known limitation of the property on this tree, not checked: a definition that reuses another field list (fields: OTHER) hashes the name OTHER, not OTHER's fields (DESIGN 8 #18)"])

    def ok(name, goal):
        res["obligations"] += 1
        res["discharged"] += 1
        res["discharged_names"].append(name)
        res["by_backend"]["template-analysis"] = res["by_backend"].get("template-analysis", 0) + 1
        if len(res["samples"]) < 6:
            res["samples"].append(dict(obligation=name, goal=goal, backend="template-analysis"))

    def bad(name, text):
        res["obligations"] += 1
        res["open"][name] = dict(kind="ensures", status="refuted", text=text, reason="template analysis", candidates=[])

    def und(name, text):
        res["obligations"] += 1
        res["undecided"].append(f"{name}: {text}")

    path = os.path.join(repo, "src", "pyrtma", "parser.py")
    try:
        tree = ast.parse(open(path).read())
    except (OSError, SyntaxError) as ex:
        res["crashes"].append(f"parser.py: {ex}")
        return res
    parser_cls = next((n for n in tree.body if isinstance(n, ast.ClassDef) and n.name == "Parser"), None)
    fdefs = {n.name: n for n in (parser_cls.body if parser_cls else []) if isinstance(n, ast.FunctionDef)}
    for hname, (ctor, has_id) in HANDLERS.items():
        pre = f"C13/{hname}"
        fd = fdefs.get(hname)
        if fd is None:
            und(pre + "/hash-is-digest-of-raw", "function not found")
            continue
        te = TemplateEval(fd)
        try:
            calls = [(pc, c, env) for pc, c, env in te.run() if c.func.id == ctor]
        except (Undecided, Refuted) as ex:
            und(pre + "/hash-is-digest-of-raw", str(ex))
            continue
        if not calls:
            und(pre + "/hash-is-digest-of-raw", f"no {ctor}(...) construction found")
            continue
        for ci, (pc, call, env) in enumerate(calls):
            sfx = "" if len(calls) == 1 else f"[{ci}]"
            # the constructor's second argument is the hash
            args = {i: a for i, a in enumerate(call.args)}
            kws = {k.arg: k.value for k in call.keywords}
            harg = kws.get("hash", args.get(1))
            try:
                if harg is None:
                    raise Undecided("constructor call without a hash argument")
                ht = te.ev(harg, env)
                if ht[0] != "sha":
                    if ht[0] == "refuted":
                        raise Refuted(ht[1])
                    if ht[0] == "opaque":
                        raise Undecided(f"hash argument {ht[1]}")
                    raise Refuted(f"the stored hash is not a sha256 hex digest: {src(harg)}")
                ok(pre + "/hash-is-digest-of-raw" + sfx, "obj.hash == sha256(raw.encode()).hexdigest()")
                branches = flatten(ht[1])
            except Refuted as ex:
                bad(pre + "/hash-is-digest-of-raw" + sfx, f"{hname}: {ex}")
                continue
            except Undecided as ex:
                und(pre + "/hash-is-digest-of-raw" + sfx, str(ex))
                continue
            except Exception as ex:
                res["crashes"].append(f"{pre}: {ex!r}")
                continue
            allowed = {"name", "id", "fields", "fname", "ftype"} if has_id else {"name", "fields", "fname", "ftype"}
            # T1
            extra_vars = sorted({v for _, a in branches for v in atoms_vars(a)} - allowed)
            if extra_vars:
                bad(pre + "/depends-only-on" + sfx, f"{hname}: the hashed text also depends on {extra_vars}")
            else:
                ok(pre + "/depends-only-on" + sfx, "vars(raw) <= {name, id, (fname, ftype) of fields.items() in order | fields (reused list name)}")
            # T2: on every branch name (+ id) + (fname and ftype in one in-order map | fields)
            missing = []
            signal = hname == "handle_signal"
            for conds, a in branches:
                vs = atoms_vars(a)
                need = ["name"] + (["id"] if has_id else [])
                for n_ in need:
                    if n_ not in vs:
                        missing.append(f"{n_} (branch {' and '.join(conds) or 'always'})")
                if not signal:
                    maps = [x for x in a if x[0] == "joinmap"]
                    in_map = any("fname" in atoms_vars(m[2]) and "ftype" in atoms_vars(m[2]) for m in maps)
                    if not in_map and "fields" not in vs:
                        missing.append(f"field names and type texts (branch {' and '.join(conds) or 'always'})")
            if missing:
                bad(pre + "/depends-on-all" + sfx, f"{hname}: the hashed text does not contain " + "; ".join(missing))
            else:
                ok(pre + "/depends-on-all" + sfx, "every element (name, id, every field name and type text in order) occurs verbatim in raw, on every branch")
            # T3
            probs = []
            for conds, a in branches:
                if not a or a[0] != ("var", "name"):
                    probs.append("the text does not start with the definition name (dedent would not be the identity)")
                probs += unique_parse(a)
            if probs:
                bad(pre + "/unique-parse" + sfx, f"{hname}: " + "; ".join(sorted(set(probs))[:4]))
            else:
                ok(pre + "/unique-parse" + sfx, "every element is followed by a separator that cannot occur inside it: distinct element lists give distinct texts")
            # T4
            if has_id:
                tid = kws.get("type_id", args.get(3))
                try:
                    if tid is None:
                        raise Undecided("no type_id argument")
                    tt = te.leaf(tid, env)
                    if tt == ("var", "id"):
                        ok(pre + "/hashed-id-is-registered-id" + sfx, "MDF.type_id is the id that was hashed")
                    elif tt[0] == "opaque":
                        und(pre + "/hashed-id-is-registered-id" + sfx, f"type_id = {tt[1]}")
                    else:
                        bad(pre + "/hashed-id-is-registered-id" + sfx, f"{hname}: type_id is {src(tid)}, the hashed id is the definition's id")
                except Refuted as ex:
                    bad(pre + "/hashed-id-is-registered-id" + sfx, f"{hname}: {ex}")
                except Undecided as ex:
                    und(pre + "/hashed-id-is-registered-id" + sfx, str(ex))
    emit_obligations(res, repo, ok, bad, "C13")
    if res["open"]:
        replay_open(res, repo)
    res["seconds"] = round(time.time() - t0, 2)
    return res



def emit_obligations(res, repo, ok, bad, prefix):
    """E1: every back end prints the first eight hex digits of the definition's hash (shared by C13 and C04)"""
    # E1: back ends
    try:
        sites = emit_sites(repo)
    except (OSError, SyntaxError) as ex:
        res["crashes"].append(f"compilers: {ex}")
        sites = []
    per_file = {}
    for fn, func, ln, node in sites:
        name = f"{prefix}/emit/{fn}:{func}"
        k = per_file.get(name, 0)
        per_file[name] = k + 1
        if k:
            name += f"[{k}]"
        v = node.value
        if isinstance(v, ast.Call) and isinstance(v.func, ast.Attribute) and v.func.attr in ("upper", "lower") and not v.args:
            v = v.func.value
        good = (isinstance(v, ast.Subscript) and isinstance(v.value, ast.Attribute) and v.value.attr == "hash" and isinstance(v.slice, ast.Slice)
                and v.slice.lower is None and v.slice.step is None and isinstance(v.slice.upper, ast.Constant) and v.slice.upper.value == 8
                and node.conversion == -1 and node.format_spec is None)
        if good:
            ok(name, "the printed value is hash[:8] - the same 32-bit prefix in every back end")
        else:
            bad(name, f"{fn}:{func} line {ln} prints {src(node.value)} instead of the first eight hex digits of the definition's hash")
    define_separation(res, repo, ok, bad, prefix)
    for fn in ("python.py", "c99.py", "javascript.py", "matlab.py"):
        if not any(s[0] == fn for s in sites):
            bad(f"{prefix}/emit/{fn}:present", f"{fn} prints no version hash at all")
        else:
            ok(f"{prefix}/emit/{fn}:present", "the back end prints the version hash")


def define_separation(res, repo, ok, bad, prefix):
    """E2 (C back end): in every `#define <name> <value>` the emitter prints, the macro name and its value are separate tokens whatever the
    length of the name: between the name hole (padded with a format spec, which pads but never truncates or separates) and the value there is a
    literal white-space character.  C13 looks at the HASH_ defines only, C04 at every define that carries a value."""
    path = os.path.join(repo, "src", "pyrtma", "compilers", "c99.py")
    try:
        tree = ast.parse(open(path).read())
    except (OSError, SyntaxError) as ex:
        res["crashes"].append(f"c99.py: {ex}")
        return
    seen = {}
    for fd in [n for n in ast.walk(tree) if isinstance(n, ast.FunctionDef)]:
        for js in [n for n in ast.walk(fd) if isinstance(n, ast.JoinedStr)]:
            vals = js.values
            if not (vals and isinstance(vals[0], ast.Constant) and isinstance(vals[0].value, str) and vals[0].value.lstrip().startswith("#define ")):
                continue
            holes = [i for i, v in enumerate(vals) if isinstance(v, ast.FormattedValue)]
            if len(holes) < 2:
                continue            # `#define NAME` guards and version strings: one hole, nothing to glue
            is_hash = "HASH_" in vals[0].value
            if prefix == "C13" and not is_hash:
                continue
            name = f"{prefix}/emit/c99.py:{fd.name}/define-name-and-value-are-separate-tokens"
            k = seen.get(name, 0)
            seen[name] = k + 1
            if k:
                name += f"[{k}]"
            glued = None
            for a, b in zip(holes, holes[1:]):
                lit = "".join(v.value for v in vals[a + 1:b] if isinstance(v, ast.Constant) and isinstance(v.value, str))
                if not any(ch in " \t" for ch in lit):
                    glued = (src(vals[a]), lit, src(vals[b]))
                    break
            if glued is None:
                ok(name, f"{fd.name}: a literal blank separates the macro name from its value for every name length")
            else:
                bad(name, f"c99.py:{fd.name} line {js.lineno} prints `#define` with nothing but {glued[1]!r} between {glued[0]} and {glued[2]}: the format spec pads short names only, so for a "
                          "name that fills the column the C preprocessor reads name and value as ONE macro name with an empty body - the C output then defines no such id / constant / hash "
                          "while the other outputs do")


def replay_open(res, repo):
    """run the real parser and compilers on a definition, relocated copies and single edits of it (replay/hash_replay.py)"""
    import subprocess
    script = os.path.join(os.path.dirname(os.path.dirname(os.path.abspath(__file__))), "replay", "hash_replay.py")
    try:
        p = subprocess.run(["/venv/bin/python", script, repo], capture_output=True, text=True, timeout=300)
    except Exception as ex:
        for info in res["open"].values():
            info["replay_error"] = repr(ex)
        return
    lines = [l for l in p.stdout.splitlines() if l.startswith("C13-REPLAY-VIOLATION:")]
    for name, info in res["open"].items():
        if "/emit/" in name:
            mine = [l for l in lines if "output carries hash" in l]
        elif "depends-only-on" in name or "parser state" in info["text"]:
            mine = [l for l in lines if "differs with" in l]
        elif "unique-parse" in name:
            mine = []
        else:
            mine = [l for l in lines if "unchanged by" in l] or [l for l in lines if "differs with" in l]
        info["verifier_output"] = info["text"]
        if mine:
            info["reproduced"] = True
            info["replay_how"] = f"/venv/bin/python replay/hash_replay.py {repo}"
            info["text"] = info["text"] + "\nreplayed on the real parser / compilers:\n" + "\n".join(mine[:6])
