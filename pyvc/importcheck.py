"""pyvc.importcheck -- C12 clause "every file is read once however it is reached": Parser.parse_file's de-duplication key.

Contract of Parser.parse_file (stated over the dataflow of one function, decided syntactically on the real AST):
  (K1) the value K appended to self.included_files is canonical: K is defined as <path expr>.resolve() (pathlib: absolute, '..' and
       symlinks collapsed), so two routes to the same file give equal keys;
  (K2) the skip test compares that same K with the elements of self.included_files and returns before any read on a match;
  (K3) the file is read (open / parse_text) only after K was appended, so a nested import of the same file hits the skip test.
Shapes outside this language are undecided (exit 2), never a violation.  pathlib's resolve() semantics is assumed.
"""
from __future__ import annotations
import ast, os, time


def _defs(fdef):
    d = {}
    for n in ast.walk(fdef):
        if isinstance(n, ast.Assign) and len(n.targets) == 1 and isinstance(n.targets[0], ast.Name):
            d.setdefault(n.targets[0].id, []).append(n)
    return d


def check(tier="quick", seed=0, repo="/repo"):
    t0 = time.time()
    res = dict(obligations=0, discharged=0, open={}, discharged_names=[], samples=[], by_backend={}, seconds=0.0, crashes=[], undecided=[], bounded=[],
               assumptions=["pathlib.Path.resolve() returns the canonical absolute path of the file (.. and symlinks collapsed); Path equality is textual",
                            "parse_file's de-duplication contract (K1-K3) is decided by a syntactic dataflow analysis of the one function, not by SMT"])
    pre = "C12/parse_file"

    def ok(n, goal):
        res["obligations"] += 1; res["discharged"] += 1; res["discharged_names"].append(n)
        res["by_backend"]["dataflow"] = res["by_backend"].get("dataflow", 0) + 1
        res["samples"].append(dict(obligation=n, goal=goal, backend="dataflow"))

    def bad(n, text):
        res["obligations"] += 1
        res["open"][n] = dict(kind="ensures", status="refuted", text=text, reason="dataflow", candidates=[])

    def und(n, text):
        res["obligations"] += 1
        res["undecided"].append(f"{n}: {text}")

    try:
        tree = ast.parse(open(os.path.join(repo, "src", "pyrtma", "parser.py")).read())
    except (OSError, SyntaxError) as ex:
        res["crashes"].append(f"parser.py: {ex}")
        return res
    cls = next((n for n in tree.body if isinstance(n, ast.ClassDef) and n.name == "Parser"), None)
    fd = next((n for n in (cls.body if cls else []) if isinstance(n, ast.FunctionDef) and n.name == "parse_file"), None)
    if fd is None:
        und(pre + "/key-is-canonical", "Parser.parse_file not found")
        return res
    defs = _defs(fd)
    appends = [n for n in ast.walk(fd) if isinstance(n, ast.Call) and isinstance(n.func, ast.Attribute) and n.func.attr == "append"
               and ast.unparse(n.func.value) == "self.included_files"]
    if len(appends) != 1 or not isinstance(appends[0].args[0], ast.Name):
        und(pre + "/key-is-canonical", "expected exactly one self.included_files.append(<name>)")
        return res
    key = appends[0].args[0].id
    kdefs = defs.get(key, [])
    if len(kdefs) != 1:
        und(pre + "/key-is-canonical", f"{key} is assigned {len(kdefs)} times")
    else:
        v = kdefs[0].value
        if isinstance(v, ast.Call) and isinstance(v.func, ast.Attribute) and v.func.attr == "resolve" and not v.args:
            ok(pre + "/key-is-canonical", f"{key} = <path>.resolve(): the de-duplication key is the canonical path")
        elif isinstance(v, ast.Call) and isinstance(v.func, ast.Attribute) and v.func.attr in ("absolute", "expanduser", "with_suffix", "joinpath") or isinstance(v, ast.BinOp):
            bad(pre + "/key-is-canonical", f"the de-duplication key {key} = {ast.unparse(v)} is not canonical: the same file reached as a/../b and b gets two keys and is read twice")
        else:
            und(pre + "/key-is-canonical", f"{key} = {ast.unparse(v)}")
    # K2: skip test on the same key, returning before the read
    test = None
    for n in fd.body:
        if isinstance(n, ast.If) and "self.included_files" in ast.unparse(n.test) and any(isinstance(x, ast.Return) for x in ast.walk(n)):
            test = n
            break
    if test is None:
        bad(pre + "/skip-test-uses-key", "parse_file has no 'already included -> return' test over self.included_files")
    else:
        names = {x.id for x in ast.walk(test.test) if isinstance(x, ast.Name)}
        cmp_ok = any(isinstance(x, ast.Compare) and len(x.ops) == 1 and isinstance(x.ops[0], (ast.Eq, ast.In)) for x in ast.walk(test.test))
        if key in names and cmp_ok:
            ok(pre + "/skip-test-uses-key", f"the skip test compares {key} with the elements of self.included_files and returns")
        elif not cmp_ok:
            und(pre + "/skip-test-uses-key", ast.unparse(test.test))
        else:
            bad(pre + "/skip-test-uses-key", f"the skip test {ast.unparse(test.test)} does not compare the key {key} that is appended to self.included_files")
    # K3: order  test < append < read
    def line_of(pred):
        ls = [n.lineno for n in ast.walk(fd) if pred(n)]
        return min(ls) if ls else None
    l_app = appends[0].lineno
    l_read = line_of(lambda n: isinstance(n, ast.Call) and (ast.unparse(n.func) in ("open", "self.parse_text")))
    if l_read is None:
        und(pre + "/append-before-read", "no open()/parse_text call found")
    elif test is not None and test.lineno < l_app < l_read:
        ok(pre + "/append-before-read", "skip test, then append, then open()/parse_text: a nested import of the same file is skipped")
    else:
        bad(pre + "/append-before-read", f"order of skip test (line {getattr(test, 'lineno', None)}), append (line {l_app}) and first read (line {l_read}) lets a file be read before it is recorded")
    if res["open"]:
        _replay(res, repo)
    res["seconds"] = round(time.time() - t0, 2)
    return res


REPLAY = r'''
import os, sys, pathlib, tempfile, shutil, logging
sys.path.insert(0, os.path.join(sys.argv[1], "src"))
logging.disable(logging.CRITICAL)
from pyrtma.parser import Parser
tmp = tempfile.mkdtemp(prefix="c12_")
try:
    os.makedirs(os.path.join(tmp, "shared")); os.makedirs(os.path.join(tmp, "sub"))
    open(os.path.join(tmp, "shared", "common.yaml"), "w").write("constants:\n  COMMON_LEN: 4\n")
    open(os.path.join(tmp, "sub", "part.yaml"), "w").write("imports:\n  - ../shared/common.yaml\nconstants:\n  PART_LEN: 2\n")
    open(os.path.join(tmp, "root.yaml"), "w").write("imports:\n  - shared/common.yaml\n  - sub/part.yaml\nconstants:\n  ROOT_LEN: 1\n")
    p = Parser()
    try:
        p.parse(pathlib.Path(tmp) / "root.yaml")
        print("C12-REPLAY-OK")
    except Exception as ex:
        print("C12-REPLAY-VIOLATION: a conflict-free diamond import (shared/common.yaml reached directly and as ../shared/common.yaml) fails with", type(ex).__name__, str(ex)[:160].replace("\n", " "))
finally:
    shutil.rmtree(tmp, ignore_errors=True)
'''


def _replay(res, repo):
    import subprocess
    try:
        p = subprocess.run(["/venv/bin/python", "-c", REPLAY, repo], capture_output=True, text=True, timeout=120)
    except Exception as ex:
        return
    lines = [l for l in p.stdout.splitlines() if l.startswith("C12-REPLAY-VIOLATION")]
    if lines:
        for info in res["open"].values():
            info["reproduced"] = True
            info["replay_how"] = "diamond import: root.yaml imports shared/common.yaml and sub/part.yaml, which imports ../shared/common.yaml"
            info["verifier_output"] = info["text"]
            info["text"] += "\nreplayed on the real parser: " + lines[0]


# ---------------------------------------------------------------------------------------------------------
# Parser.handle_reserve: "every id covered by a _RESERVED_ entry is registered, so that a definition using it conflicts"
#   (R1) an integer entry e is reserved as e;
#   (R2) a span entry "a-b" / "a to b" is expanded with range(a, b + 1): both ends included, a and b being int() of the regex groups "start" and "end";
#   (R3) every reserved id is registered through handle_signal with that id (which validates it against every message, signal and reserved id).
# Decided by dataflow over the one function; other shapes are undecided.  Replayed on the real parser.
RESERVE_REPLAY = r'''
import os, sys, pathlib, tempfile, shutil, logging
sys.path.insert(0, os.path.join(sys.argv[1], "src"))
logging.disable(logging.CRITICAL)
from pyrtma.parser import Parser
tmp = tempfile.mkdtemp(prefix="c12r_")
bad = []
try:
    for used in (7000, 7010, 7011, 7012, 7020, 7030, 7033):
        f = pathlib.Path(tmp) / f"d{used}.yaml"
        f.write_text("message_defs:\n  _RESERVED_:\n    id: [7000, '7010-7012', '7020 to 7020', ' 7030 - 7033 ']\n  USER_MSG:\n    id: %d\n    fields:\n      a: int32\n" % used)
        try:
            Parser().parse(f)
            bad.append(used)
        except Exception as ex:
            if type(ex).__name__ != "MessageIDError":
                print("C12-REPLAY-NOTE:", used, type(ex).__name__)
    f = pathlib.Path(tmp) / "free.yaml"
    f.write_text("message_defs:\n  _RESERVED_:\n    id: [7000, '7010-7012']\n  USER_MSG:\n    id: 7013\n    fields:\n      a: int32\n")
    try:
        Parser().parse(f)
    except Exception as ex:
        print("C12-REPLAY-VIOLATION: a conflict-free definition next to a reserved span is rejected:", type(ex).__name__)
    if bad:
        print("C12-REPLAY-VIOLATION: definitions using reserved ids", bad, "compile without MessageIDError (reserved: 7000, 7010-7012, 7020, 7030-7033)")
finally:
    shutil.rmtree(tmp, ignore_errors=True)
'''


def check_reserve(tier="quick", seed=0, repo="/repo"):
    t0 = time.time()
    res = dict(obligations=0, discharged=0, open={}, discharged_names=[], samples=[], by_backend={}, seconds=0.0, crashes=[], undecided=[], bounded=[],
               assumptions=["handle_reserve's contract (R1-R3: integer entries as they are, spans expanded with both ends, every reserved id registered through handle_signal) is decided by a "
                            "syntactic dataflow analysis of the one function; the regex that splits a span is not modelled"])
    pre = "C12/handle_reserve"

    def ok(n, goal):
        res["obligations"] += 1; res["discharged"] += 1; res["discharged_names"].append(n)
        res["by_backend"]["dataflow"] = res["by_backend"].get("dataflow", 0) + 1
        res["samples"].append(dict(obligation=n, goal=goal, backend="dataflow"))

    def bad(n, text):
        res["obligations"] += 1
        res["open"][n] = dict(kind="ensures", status="refuted", text=text, reason="dataflow", candidates=[])

    def und(n, text):
        res["obligations"] += 1
        res["undecided"].append(f"{n}: {text}")
    try:
        tree = ast.parse(open(os.path.join(repo, "src", "pyrtma", "parser.py")).read())
    except (OSError, SyntaxError) as ex:
        res["crashes"].append(f"parser.py: {ex}")
        return res
    cls = next((n for n in tree.body if isinstance(n, ast.ClassDef) and n.name == "Parser"), None)
    fd = next((n for n in (cls.body if cls else []) if isinstance(n, ast.FunctionDef) and n.name == "handle_reserve"), None)
    if fd is None:
        und(pre + "/span-includes-both-ends", "Parser.handle_reserve not found")
        return res
    defs = _defs(fd)

    def group_of(name):
        """'start' / 'end' if the local is int(<...>['start'|'end'])"""
        ds = defs.get(name, [])
        if len(ds) != 1:
            return None
        v = ds[0].value
        if isinstance(v, ast.Call) and isinstance(v.func, ast.Name) and v.func.id == "int" and len(v.args) == 1:
            s_ = ast.unparse(v.args[0])
            for g in ("start", "end"):
                if f"'{g}'" in s_ or f'"{g}"' in s_:
                    return g
        return None
    ranges = [n for n in ast.walk(fd) if isinstance(n, ast.Call) and isinstance(n.func, ast.Name) and n.func.id == "range"]
    if len(ranges) != 1 or len(ranges[0].args) != 2:
        und(pre + "/span-includes-both-ends", f"expected one range(lo, hi) call, found {[ast.unparse(r) for r in ranges]}")
    else:
        lo, hi = ranges[0].args
        lo_ok = isinstance(lo, ast.Name) and group_of(lo.id) == "start"
        hi_incl = (isinstance(hi, ast.BinOp) and isinstance(hi.op, ast.Add) and
                   ((isinstance(hi.left, ast.Name) and group_of(hi.left.id) == "end" and isinstance(hi.right, ast.Constant) and hi.right.value == 1) or
                    (isinstance(hi.right, ast.Name) and group_of(hi.right.id) == "end" and isinstance(hi.left, ast.Constant) and hi.left.value == 1)))
        hi_excl = isinstance(hi, ast.Name) and group_of(hi.id) == "end"
        lo_shift = isinstance(lo, ast.BinOp) and any(isinstance(x, ast.Name) and group_of(x.id) == "start" for x in ast.walk(lo))
        if lo_ok and hi_incl:
            ok(pre + "/span-includes-both-ends", "a span 'a-b' is expanded with range(a, b + 1): a, ..., b are all reserved")
        elif hi_excl or lo_shift or (lo_ok and isinstance(hi, ast.BinOp)):
            bad(pre + "/span-includes-both-ends", f"a span 'a-b' is expanded with {ast.unparse(ranges[0])}: an end of the span is not reserved, a definition using it compiles without a conflict")
        else:
            und(pre + "/span-includes-both-ends", ast.unparse(ranges[0]))
    # R1: integer entries
    appends = [n for n in ast.walk(fd) if isinstance(n, ast.Call) and isinstance(n.func, ast.Attribute) and n.func.attr == "append" and isinstance(n.func.value, ast.Name)]
    loopvars = {n.target.id: ast.unparse(n.iter) for n in ast.walk(fd) if isinstance(n, ast.For) and isinstance(n.target, ast.Name)}
    good_app = [a for a in appends if len(a.args) == 1 and isinstance(a.args[0], ast.Name) and a.args[0].id in loopvars]
    if len(appends) == 1 and good_app:
        ok(pre + "/integer-entry-reserved-as-is", "an integer entry e is appended to the reserved ids unchanged")
        coll = appends[0].func.value.id
    elif appends:
        bad(pre + "/integer-entry-reserved-as-is", f"an integer entry is reserved as {ast.unparse(appends[0].args[0]) if appends[0].args else '?'}, not as itself")
        coll = appends[0].func.value.id
    else:
        und(pre + "/integer-entry-reserved-as-is", "no append of the integer entry found")
        coll = None
    # R3: every reserved id goes through handle_signal with that id
    hs = [n for n in ast.walk(fd) if isinstance(n, ast.Call) and ast.unparse(n.func) == "self.handle_signal"]
    okr3 = False
    why = "no self.handle_signal(...) call"
    for call in hs:
        loop = next((f for f in ast.walk(fd) if isinstance(f, ast.For) and any(c is call for c in ast.walk(f))), None)
        if loop is None or not isinstance(loop.target, ast.Name):
            why = "handle_signal is not called once per reserved id"
            continue
        if coll is not None and ast.unparse(loop.iter) != coll:
            why = f"the registration loop runs over {ast.unparse(loop.iter)}, not over the reserved ids {coll}"
            continue
        arg = call.args[1] if len(call.args) > 1 else None
        idv = None
        if isinstance(arg, ast.Call) and isinstance(arg.func, ast.Name) and arg.func.id == "dict":
            idv = next((k.value for k in arg.keywords if k.arg == "id"), None)
        elif isinstance(arg, ast.Dict):
            idv = next((v for k, v in zip(arg.keys, arg.values) if isinstance(k, ast.Constant) and k.value == "id"), None)
        if isinstance(idv, ast.Name) and idv.id == loop.target.id:
            okr3 = True
        else:
            why = f"handle_signal is given id={ast.unparse(idv) if idv is not None else '?'} instead of the reserved id {loop.target.id}"
    if okr3:
        ok(pre + "/every-reserved-id-registered", "for id in reserved: handle_signal(name, dict(id=id, ...)) - each reserved id is validated and registered")
    elif hs:
        bad(pre + "/every-reserved-id-registered", why)
    else:
        und(pre + "/every-reserved-id-registered", why)
    if res["open"]:
        import subprocess
        try:
            p = subprocess.run(["/venv/bin/python", "-c", RESERVE_REPLAY, repo], capture_output=True, text=True, timeout=180)
            lines = [l for l in p.stdout.splitlines() if l.startswith("C12-REPLAY-VIOLATION")]
            if lines:
                for info in res["open"].values():
                    info["reproduced"] = True
                    info["replay_how"] = "_RESERVED_ id: [7000, '7010-7012', '7020 to 7020', ' 7030 - 7033 '] next to a message using each reserved id in turn"
                    info["verifier_output"] = info["text"]
                    info["text"] += "\nreplayed on the real parser: " + " | ".join(lines)
        except Exception:
            pass
    res["seconds"] = round(time.time() - t0, 2)
    return res


# ---------------------------------------------------------------------------------------------------------
# Parser.add_fields: "every definition - also one that reuses another definition's field list - goes through the layout pass"
#   (L1) every normal exit of add_fields is preceded by self.validate_msg_def(<the definition>), which runs check_alignment (C11 contract) and the size limit.
# Decided by a path analysis over the structured statements of the one function; replayed on the real parser.
LAYOUT_REPLAY = r'''
import os, sys, pathlib, tempfile, shutil, logging
sys.path.insert(0, os.path.join(sys.argv[1], "src"))
logging.disable(logging.CRITICAL)
from pyrtma.parser import Parser
tmp = tempfile.mkdtemp(prefix="c11r_")
try:
    f = pathlib.Path(tmp) / "d.yaml"
    f.write_text("struct_defs:\n  PAIR2:\n    fields:\n      a: int16\n      b: int16\n  COPY2:\n    fields: PAIR2\n"
                 "message_defs:\n  HOLD:\n    id: 7100\n    fields:\n      tag: int16\n      p: COPY2\n")
    p = Parser(auto_pad=False, import_coredefs=False)
    try:
        p.parse(f)
        c, h = p.struct_defs["COPY2"], p.message_defs["HOLD"]
        if c.alignment != 2 or h.size != 6:
            print(f"C11-REPLAY-VIOLATION: COPY2 (field list of PAIR2: two int16) has alignment {c.alignment} (expected 2); HOLD is {h.size} bytes (expected 6)")
    except Exception as ex:
        print("C11-REPLAY-VIOLATION: a definition that needs no padding (int16 tag + a struct of two int16 defined by field-list reuse) is rejected:", type(ex).__name__, str(ex)[:120].replace("\n", " "))
finally:
    shutil.rmtree(tmp, ignore_errors=True)
'''


def _exits_without(stmts, is_call):
    """(can fall through the block without the call, can leave the function normally (return) without the call) - over-approximation"""
    fall = True       # a path reaches this point without the call
    ret = False
    for st in stmts:
        if not fall:
            break
        if isinstance(st, ast.Return):
            return False, True
        if isinstance(st, ast.Raise):
            return False, ret
        if isinstance(st, ast.Expr) and is_call(st.value):
            return False, ret
        if isinstance(st, ast.If):
            f1, r1 = _exits_without(st.body, is_call)
            f2, r2 = _exits_without(st.orelse, is_call) if st.orelse else (True, False)
            ret = ret or r1 or r2
            fall = f1 or f2
        elif isinstance(st, (ast.For, ast.While)):
            f1, r1 = _exits_without(st.body, is_call)
            ret = ret or r1
            fall = True        # zero iterations
        elif isinstance(st, ast.With):
            f1, r1 = _exits_without(st.body, is_call)
            ret, fall = ret or r1, f1
        elif isinstance(st, ast.Try):
            f1, r1 = _exits_without(st.body + st.orelse, is_call)
            fr = [f1]
            ret = ret or r1
            for h in st.handlers:
                fh, rh = _exits_without(h.body, is_call)
                fr.append(fh)
                ret = ret or rh
            fall = any(fr)
            if st.finalbody:
                ff, rf = _exits_without(st.finalbody, is_call)
                ret = ret or rf
                fall = fall and ff
    return fall, ret


def check_layout_pass(tier="quick", seed=0, repo="/repo"):
    t0 = time.time()
    res = dict(obligations=0, discharged=0, open={}, discharged_names=[], samples=[], by_backend={}, seconds=0.0, crashes=[], undecided=[], bounded=[],
               assumptions=["Parser.add_fields is not under an SMT contract; that every definition it fills (field-list reuse included) reaches validate_msg_def - and with it the verified "
                            "check_alignment - is decided by a path analysis of the one function"])
    name = "C11/add_fields/every-definition-goes-through-the-layout-pass"
    res["obligations"] = 1
    try:
        tree = ast.parse(open(os.path.join(repo, "src", "pyrtma", "parser.py")).read())
    except (OSError, SyntaxError) as ex:
        res["crashes"].append(f"parser.py: {ex}")
        return res
    cls = next((n for n in tree.body if isinstance(n, ast.ClassDef) and n.name == "Parser"), None)
    fd = next((n for n in (cls.body if cls else []) if isinstance(n, ast.FunctionDef) and n.name == "add_fields"), None)
    if fd is None:
        res["undecided"].append(f"{name}: Parser.add_fields not found")
        return res
    param = fd.args.args[1].arg if len(fd.args.args) > 1 else None

    def is_call(v):
        return isinstance(v, ast.Call) and ast.unparse(v.func) == "self.validate_msg_def" and len(v.args) == 1 and isinstance(v.args[0], ast.Name) and v.args[0].id == param
    fall, ret = _exits_without(fd.body, is_call)
    if not fall and not ret:
        res["discharged"] = 1
        res["discharged_names"].append(name)
        res["by_backend"]["dataflow"] = 1
        res["samples"].append(dict(obligation=name, goal=f"every normal exit of add_fields is preceded by self.validate_msg_def({param})", backend="dataflow"))
    else:
        info = dict(kind="ensures", status="refuted", reason="path analysis", candidates=[],
                    text=f"add_fields can return without calling self.validate_msg_def({param}): a definition filled on that path keeps the default alignment (8) and is never checked or padded")
        import subprocess
        try:
            p = subprocess.run(["/venv/bin/python", "-c", LAYOUT_REPLAY, repo], capture_output=True, text=True, timeout=120)
            lines = [l for l in p.stdout.splitlines() if l.startswith("C11-REPLAY-VIOLATION")]
            if lines:
                info.update(reproduced=True, replay_how="field-list reuse of a two-int16 struct inside a message, auto_pad off", verifier_output=info["text"])
                info["text"] += "\nreplayed on the real parser: " + lines[0]
        except Exception:
            pass
        res["open"][name] = info
    res["seconds"] = round(time.time() - t0, 2)
    return res


# ---------------------------------------------------------------------------------------------------------
# Parser.parse_file: "the parser always knows which file it is in" - the range checks of handle_host_id / handle_module_id (verified contracts)
# exempt ids by self.current_file.name, so the C12 clause "an id outside its permitted range is refused" depends on parse_file's frame:
#   (F1) every normal exit of parse_file - the 'already included' early return too - leaves self.current_file at its entry value;
#   (F2) at the call self.parse_text(...) self.current_file has been set from the path of the file being read.
# Decided by an abstract interpretation of the one function over the three-valued domain {entry, new, other} for self.current_file and the locals
# that hold copies of it; paths: both arms of every if, try bodies completing normally, handlers, zero or one loop iteration.
CURFILE_REPLAY = r'''
import os, sys, pathlib, tempfile, shutil, logging
sys.path.insert(0, os.path.join(sys.argv[1], "src"))
logging.disable(logging.CRITICAL)
import pyrtma
from pyrtma.parser import Parser
tmp = tempfile.mkdtemp(prefix="c12f_")
core = pathlib.Path(pyrtma.__file__).parent / "core_defs" / "core_defs.yaml"
try:
    bad = []
    for sect, nm, val in (("host_ids", "FAR_HOST", 40000), ("module_ids", "LOW_MODULE", 5), ("module_ids", "GAP_MODULE", 150)):
        f = pathlib.Path(tmp) / f"user_{nm}.yaml"
        f.write_text("imports:\n  - %s\n%s:\n  %s: %d\n" % (core, sect, nm, val))
        try:
            Parser().parse(f)
            bad.append(f"{sect} {nm}: {val}")
        except Exception as ex:
            if type(ex).__name__ != "RTMASyntaxError":
                print("C12-REPLAY-NOTE:", nm, type(ex).__name__)
    if bad:
        print("C12-REPLAY-VIOLATION: ids outside the permitted range are accepted in a file that re-imports core_defs.yaml (skipped as already read):", "; ".join(bad))
finally:
    shutil.rmtree(tmp, ignore_errors=True)
'''


def check_current_file(tier="quick", seed=0, repo="/repo"):
    t0 = time.time()
    res = dict(obligations=0, discharged=0, open={}, discharged_names=[], samples=[], by_backend={}, seconds=0.0, crashes=[], undecided=[], bounded=[],
               assumptions=["parse_file's frame on self.current_file (restored on every normal exit, set to the file being read before parse_text) is decided by an abstract interpretation of the "
                            "one function ({entry, new, other}), not by SMT; the verified range clauses of handle_host_id / handle_module_id rely on it"])
    pre = "C12/parse_file"

    def ok(n, goal):
        res["obligations"] += 1; res["discharged"] += 1; res["discharged_names"].append(n)
        res["by_backend"]["dataflow"] = res["by_backend"].get("dataflow", 0) + 1
        res["samples"].append(dict(obligation=n, goal=goal, backend="dataflow"))

    def bad(n, text):
        res["obligations"] += 1
        res["open"][n] = dict(kind="ensures", status="refuted", text=text, reason="dataflow", candidates=[])

    def und(n, text):
        res["obligations"] += 1
        res["undecided"].append(f"{n}: {text}")
    try:
        tree = ast.parse(open(os.path.join(repo, "src", "pyrtma", "parser.py")).read())
    except (OSError, SyntaxError) as ex:
        res["crashes"].append(f"parser.py: {ex}")
        return res
    cls = next((n for n in tree.body if isinstance(n, ast.ClassDef) and n.name == "Parser"), None)
    fd = next((n for n in (cls.body if cls else []) if isinstance(n, ast.FunctionDef) and n.name == "parse_file"), None)
    if fd is None:
        und(pre + "/current-file-restored", "Parser.parse_file not found")
        return res
    param = fd.args.args[1].arg if len(fd.args.args) > 1 else None
    CUR = "self.current_file"
    exits, reads, unknown = [], [], []

    def val_of(e, st):
        if isinstance(e, ast.Name):
            return st["loc"].get(e.id, "other")
        if ast.unparse(e) == CUR:
            return st["cur"]
        names = {x.id for x in ast.walk(e) if isinstance(x, ast.Name)}
        if any(st["loc"].get(nm) == "new" for nm in names) or param in names:
            return "new"
        return "other"

    def run(stmts, st):
        """returns the list of states that fall through the block"""
        states = [st]
        for s in stmts:
            nxt = []
            for st in states:
                st = dict(cur=st["cur"], loc=dict(st["loc"]))
                if isinstance(s, ast.Return):
                    exits.append((s.lineno, st["cur"]))
                    continue
                if isinstance(s, ast.Raise):
                    continue
                if isinstance(s, ast.Assign) and len(s.targets) == 1:
                    tg = s.targets[0]
                    if ast.unparse(tg) == CUR:
                        st["cur"] = val_of(s.value, st)
                    elif isinstance(tg, ast.Name):
                        st["loc"][tg.id] = val_of(s.value, st)
                    elif CUR in ast.unparse(tg):
                        unknown.append(s.lineno)
                    nxt.append(st)
                elif isinstance(s, (ast.AugAssign, ast.AnnAssign)) and CUR in ast.unparse(s.target):
                    unknown.append(s.lineno); nxt.append(st)
                elif isinstance(s, ast.If):
                    nxt += run(s.body, st) + run(s.orelse, st)
                elif isinstance(s, (ast.For, ast.While)):
                    nxt += [st] + run(s.body, st)
                elif isinstance(s, ast.With):
                    nxt += run(s.body, st)
                elif isinstance(s, ast.Try):
                    after = run(s.body, st)
                    after = [a for b in after for a in run(s.orelse, b)] if s.orelse else after
                    for h in s.handlers:
                        after += run(h.body, st)
                    if s.finalbody:
                        after = [a for b in after for a in run(s.finalbody, b)]
                    nxt += after
                else:
                    for c in ast.walk(s):
                        if isinstance(c, ast.Call) and ast.unparse(c.func) == "self.parse_text":
                            reads.append((c.lineno, st["cur"]))
                        if isinstance(c, ast.Call) and ast.unparse(c.func) in ("setattr",) and "current_file" in ast.unparse(c):
                            unknown.append(c.lineno)
                    nxt.append(st)
            states = nxt
        return states

    for st in run(fd.body, dict(cur="entry", loc={param: "new"} if param else {})):
        exits.append((getattr(fd, "end_lineno", 0), st["cur"]))
    if unknown:
        und(pre + "/current-file-restored", f"self.current_file is written in a way the analysis does not follow (lines {unknown})")
    else:
        wrong = [(ln, v) for ln, v in exits if v != "entry"]
        if not exits:
            und(pre + "/current-file-restored", "no normal exit found")
        elif wrong:
            bad(pre + "/current-file-restored",
                f"parse_file can return (line {wrong[0][0]}) with self.current_file still set to {'the file just handled' if wrong[0][1] == 'new' else 'another value'} instead of the importing "
                "file: what the importing file declares afterwards is attributed to the wrong file, and the range checks of handle_host_id / handle_module_id exempt ids by that file's name")
        else:
            ok(pre + "/current-file-restored", f"all {len(exits)} normal exits of parse_file leave self.current_file at its entry value (the early 'already included' return too)")
        if not reads:
            und(pre + "/current-file-is-the-file-read", "no self.parse_text(...) call found")
        elif all(v == "new" for _, v in reads):
            ok(pre + "/current-file-is-the-file-read", "self.current_file is set from the path of the file being read before self.parse_text(text)")
        else:
            bad(pre + "/current-file-is-the-file-read", f"self.parse_text is called (line {reads[0][0]}) while self.current_file is not the file being read: its definitions are attributed to another file")
    if res["open"]:
        import subprocess
        try:
            p = subprocess.run(["/venv/bin/python", "-c", CURFILE_REPLAY, repo], capture_output=True, text=True, timeout=180)
            lines = [l for l in p.stdout.splitlines() if l.startswith("C12-REPLAY-VIOLATION")]
            if lines:
                for info in res["open"].values():
                    info["reproduced"] = True
                    info["replay_how"] = "a user file that imports pyrtma's own core_defs.yaml (already read, so skipped) and then declares a host id 40000 / module ids 5 and 150"
                    info["verifier_output"] = info["text"]
                    info["text"] += "\nreplayed on the real parser: " + " | ".join(lines)
        except Exception:
            pass
    res["seconds"] = round(time.time() - t0, 2)
    return res


# ---------------------------------------------------------------------------------------------------------
# Parser.handle_struct / handle_message_def: the two section handlers that are NOT under an SMT contract (their bodies parse untyped YAML values).
#   (N1) every normal path through the handler calls self.check_duplicate_name(<section>, <the name parameter>, namespaces=<the five shared namespaces>) -
#        the function verified by SMT for exactly that tuple - before anything is registered (path analysis, as for add_fields);
#   (N2) the namespaces argument is the literal tuple of the five shared namespaces.
FIVE_NS = ("constants", "string_constants", "aliases", "struct_defs", "message_defs")
NAMES_REPLAY = r'''
import os, sys, pathlib, tempfile, shutil, logging
sys.path.insert(0, os.path.join(sys.argv[1], "src"))
logging.disable(logging.CRITICAL)
from pyrtma.parser import Parser
tmp = tempfile.mkdtemp(prefix="c12n_")
first = {"constants": "constants:\n  DUP: 3\n", "string_constants": "string_constants:\n  DUP: hello\n", "aliases": "aliases:\n  DUP: int32\n",
         "struct_defs": "struct_defs:\n  DUP:\n    fields:\n      a: int32\n", "message_defs": "message_defs:\n  DUP:\n    id: 4100\n    fields:\n      a: int32\n"}
second = {"struct_defs": "struct_defs:\n  DUP:\n    fields:\n      b: int32\n", "message_defs": "message_defs:\n  DUP:\n    id: 4101\n    fields:\n      b: int32\n"}
missed = []
try:
    for k1, t1 in first.items():
        for k2, t2 in second.items():
            if k1 == k2:
                continue          # a repeated key inside one section of one file is the YAML loader's business
            d = pathlib.Path(tmp) / f"{k1}_{k2}"; d.mkdir()
            (d / "child.yaml").write_text(t1)
            (d / "root.yaml").write_text("imports:\n  - child.yaml\n" + t2)
            try:
                Parser().parse(d / "root.yaml")
                missed.append(f"{k2} DUP after {k1} DUP")
            except Exception as ex:
                if type(ex).__name__ != "DuplicateNameError":
                    print("C12-REPLAY-NOTE:", k1, k2, type(ex).__name__)
    if missed:
        print("C12-REPLAY-VIOLATION: name collisions across the shared namespaces compile without DuplicateNameError:", "; ".join(missed))
finally:
    shutil.rmtree(tmp, ignore_errors=True)
'''


def check_name_sites(tier="quick", seed=0, repo="/repo"):
    t0 = time.time()
    res = dict(obligations=0, discharged=0, open={}, discharged_names=[], samples=[], by_backend={}, seconds=0.0, crashes=[], undecided=[], bounded=[],
               assumptions=["handle_struct / handle_message_def are not under an SMT contract; that each of them runs the (SMT-verified) five-namespace name check on its name parameter on every "
                            "normal path before registering anything is decided by a path analysis of the function (pyvc/importcheck.py)"])
    try:
        tree = ast.parse(open(os.path.join(repo, "src", "pyrtma", "parser.py")).read())
    except (OSError, SyntaxError) as ex:
        res["crashes"].append(f"parser.py: {ex}")
        return res
    cls = next((n for n in tree.body if isinstance(n, ast.ClassDef) and n.name == "Parser"), None)
    for fn in ("handle_struct", "handle_message_def"):
        name = f"C12/{fn}/name-checked-against-the-five-namespaces-before-registration"
        res["obligations"] += 1
        fd = next((n for n in (cls.body if cls else []) if isinstance(n, ast.FunctionDef) and n.name == fn), None)
        if fd is None or len(fd.args.args) < 2:
            res["undecided"].append(f"{name}: Parser.{fn} not found")
            continue
        param = fd.args.args[1].arg
        calls = [c for c in ast.walk(fd) if isinstance(c, ast.Call) and ast.unparse(c.func) == "self.check_duplicate_name"]
        why = None

        def full(c):
            ns = next((k.value for k in c.keywords if k.arg == "namespaces"), c.args[2] if len(c.args) > 2 else None)
            nm = c.args[1] if len(c.args) > 1 else next((k.value for k in c.keywords if k.arg == "name"), None)
            if not (isinstance(nm, ast.Name) and nm.id == param):
                return False, f"checks {ast.unparse(nm) if nm is not None else '?'} instead of the name parameter {param}"
            if not isinstance(ns, (ast.Tuple, ast.List)) or not all(isinstance(e_, ast.Constant) for e_ in ns.elts):
                return None, f"namespaces argument {ast.unparse(ns) if ns is not None else '?'} is not a literal tuple"
            got = tuple(e_.value for e_ in ns.elts)
            missing = [n_ for n_ in FIVE_NS if n_ not in got]
            if missing:
                return False, f"the name is not checked against {missing}: a {fn[7:]} may share its name with an item of that kind"
            return True, ""
        verdicts = [full(c) for c in calls]
        good_calls = [c for c, (v, _) in zip(calls, verdicts) if v is True]
        if not calls:
            why = (False, f"{fn} never calls self.check_duplicate_name")
        elif not good_calls:
            why = next(((v, t) for v, t in verdicts if v is False), verdicts[0])
        if why is None:
            def is_call(v, _good=good_calls):
                return any(v is c for c in _good)
            # registration sites: stores into the tables, and the delegations that register (handle_signal / handle_reserve / add_fields)
            fall, ret = _exits_without(fd.body, is_call)
            if fall or ret:
                why = (False, f"{fn} can finish (or reach its registration code) on a path that never ran the name check")
        if why is None:
            res["discharged"] += 1
            res["discharged_names"].append(name)
            res["by_backend"]["dataflow"] = res["by_backend"].get("dataflow", 0) + 1
            if len(res["samples"]) < 2:
                res["samples"].append(dict(obligation=name, goal=f"every normal path of {fn} runs check_duplicate_name(<section>, {param}, namespaces=the five shared namespaces) first", backend="dataflow"))
        elif why[0] is None:
            res["undecided"].append(f"{name}: {why[1]}")
        else:
            res["open"][name] = dict(kind="ensures", status="refuted", reason="path analysis", candidates=[], text=why[1])
    if res["open"]:
        import subprocess
        try:
            p = subprocess.run(["/venv/bin/python", "-c", NAMES_REPLAY, repo], capture_output=True, text=True, timeout=240)
            lines = [l for l in p.stdout.splitlines() if l.startswith("C12-REPLAY-VIOLATION")]
            if lines:
                for info in res["open"].values():
                    info.update(reproduced=True, replay_how="child.yaml defines DUP as a constant / string constant / alias / struct / message; root.yaml imports it and defines a struct or message DUP",
                                verifier_output=info["text"])
                    info["text"] += "\nreplayed on the real parser: " + lines[0]
        except Exception:
            pass
    res["seconds"] = round(time.time() - t0, 2)
    return res
