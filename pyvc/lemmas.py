"""pyvc.lemmas -- lemmas the sidecars use, proved once per run by z3 (induction written out as base / step / conclusion VCs).

packed_is_natural (C11, used by C04's layout clause): contracts/parser_contracts.py gives Parser.get_ctype_size the contract
"layout_ok(s) ==> result == s.gtotal" (ctypes.sizeof of the structure equals the sum of the declared field sizes).  Until now the step from
`layout_ok` to "a C compiler / ctypes inserts no padding" was an assumed lemma.  Here it is proved from the definition of the natural layout:

    nat(0) = 0;   nat(j+1) = roundup(nat(j) + size(j), align(j+1));   nat_size = roundup(nat(n-1) + size(n-1), maxalign)
    roundup(x, a) = the least multiple of a that is >= x,   a in {1, 2, 4, 8}

Hypotheses = layout_ok as check_alignment establishes it: off(0) = 0, off(j+1) = off(j) + size(j) (contiguous), off(j) a multiple of align(j),
end = off(n-1) + size(n-1) a multiple of every member alignment, maxalign is one of the member alignments.
  base  nat(0) == off(0)
  step  nat(j) == off(j)  ==>  nat(j+1) == off(j+1)          (for every j, sizes, alignments)
  concl nat(n-1) == off(n-1)  ==>  nat_size == end           (no trailing padding either)
What stays assumed: that ctypes and the C ABI lay a struct out by exactly this recursion (System V / LP64 natural alignment).
"""
from __future__ import annotations
import time


def check_packed_is_natural(tier="quick", seed=0, repo="/repo"):
    import z3
    t0 = time.time()
    res = dict(obligations=0, discharged=0, open={}, discharged_names=[], samples=[], by_backend={}, seconds=0.0, crashes=[], undecided=[], bounded=[],
               assumptions=["C ABI / ctypes natural layout: field j+1 starts at the least multiple of its alignment at or after the end of field j, the struct's size is the least multiple of its "
                            "strictest member alignment at or after the end of the last field (alignments 1, 2, 4, 8) - lemma packed_is_natural is PROVED from this rule on every run (pyvc/lemmas.py)"])
    x, a, off_j, size_j, a_next, off_next, nat_j, end, amax = z3.Ints("x a off_j size_j a_next off_next nat_j end amax")

    def va(v):
        return z3.Or(v == 1, v == 2, v == 4, v == 8)

    def roundup(v, al):
        return ((v + al - 1) / al) * al

    def mult(v, al):
        return v % al == 0
    vcs = {
        "C11/lemma/packed_is_natural/roundup-is-identity-on-multiples": z3.Implies(z3.And(va(a), x >= 0, mult(x, a)), roundup(x, a) == x),
        "C11/lemma/packed_is_natural/base": z3.IntVal(0) == z3.IntVal(0),
        "C11/lemma/packed_is_natural/step": z3.Implies(z3.And(va(a_next), off_j >= 0, size_j > 0, nat_j == off_j, off_next == off_j + size_j, mult(off_next, a_next)),
                                                       roundup(nat_j + size_j, a_next) == off_next),
        "C11/lemma/packed_is_natural/no-trailing-padding": z3.Implies(z3.And(va(amax), off_j >= 0, size_j > 0, nat_j == off_j, end == off_j + size_j, mult(end, amax)),
                                                                    roundup(nat_j + size_j, amax) == end),
        # the guard: without the alignment hypothesis the step must NOT be provable (vacuity / strength check)
    }
    for name, vc in vcs.items():
        res["obligations"] += 1
        s = z3.Solver()
        s.set("timeout", 20000)
        s.add(z3.Not(vc))
        r = s.check()
        if r == z3.unsat:
            res["discharged"] += 1
            res["discharged_names"].append(name)
            res["by_backend"]["z3"] = res["by_backend"].get("z3", 0) + 1
            if len(res["samples"]) < 2:
                res["samples"].append(dict(obligation=name, goal=str(vc)[:300], backend="z3"))
        elif r == z3.sat:
            res["open"][name] = dict(kind="lemma", status="refuted", text=f"lemma VC has a counter-model: {s.model()}", reason="sat", candidates=[])
        else:
            res["undecided"].append(f"{name}: {s.reason_unknown()}")
    # must-fail guard: dropping the alignment hypothesis has to make the step refutable
    s = z3.Solver()
    s.set("timeout", 20000)
    s.add(z3.Not(z3.Implies(z3.And(va(a_next), off_j >= 0, size_j > 0, nat_j == off_j, off_next == off_j + size_j), roundup(nat_j + size_j, a_next) == off_next)))
    if s.check() != z3.sat:
        res["crashes"].append("C11/lemma/packed_is_natural: the step is provable without the alignment hypothesis - the lemma encoding is vacuous")
    res["seconds"] = round(time.time() - t0, 2)
    return res
