"""pyvc.lib -- models of builtins, containers, ctypes descriptors and the few stdlib calls the
verified functions use.  Everything here is part of the trusted base (DESIGN §7 item 2) and is
listed in the evidence under 'assumptions'."""
from __future__ import annotations
import ast
import z3
from .core import *
from .engine import Unsupported
from .spec import LoopSpec

NORMAL = ("normal",)


class Lib:
    def __init__(self, eng):
        self.e = eng
        S = eng.S
        self.isascii = z3.Function("isascii", z3.StringSort(), z3.BoolSort())
        self.nbytes = z3.Function("nbytes", S.Ref, z3.IntSort())        # byte length of a payload object
        self.sizeof_cls = z3.Function("sizeof_cls", z3.IntSort(), z3.IntSort())
        self.used: set[str] = set()
        PV = S.sort(PYVAL)
        self.pv_kind = z3.Function("pv_kind", PV, z3.IntSort())      # 0: int (bool included), 1: float, 2: anything else
        self.pv_int = z3.Function("pv_int", PV, z3.IntSort())        # the integer, for kind 0
        self.pv_float = z3.Function("pv_float", PV, S.Float)         # the double, for kind 1
        self.ufuncs = {"nbytes": (self.nbytes, INT), "isascii": (self.isascii, BOOL), "sizeof_cls": (self.sizeof_cls, INT),
                       "pv_kind": (self.pv_kind, INT), "pv_int": (self.pv_int, INT), "pv_float": (self.pv_float, FLOAT)}

    def pv_num(self, z):
        """numeric value of a python int / float as a real (python compares ints and floats by value)"""
        return z3.If(self.pv_kind(z) == 0, z3.ToReal(self.pv_int(z)), z3.fpToReal(self.pv_float(z)))

    def use(self, what):
        self.used.add(what)

    # ================================================================== object fields
    def field_get(self, base: Val, attr: str, st: State, node):
        e = self.e
        fd = e.field_decl(base.t[1], attr)
        dcls, t, decl = fd
        v = e.load_field(st, base, attr, node)
        if getattr(decl, "ctypes", False) and not e.spec_mode:
            kind, meta = decl.cfields[attr]
            if kind in ("string", "char"):
                self.use("ctypes: String.__get__ decodes the bytes up to the first NUL as ASCII (UnicodeDecodeError on a byte >= 128)")
                hc, hf = e.hkey(dcls, attr, decl)
                okarr = e.heap_arr(st, hc, hf + "$ascii", BOOL)
                ok = z3.Select(okarr, base.z)
                res = []
                for s2, good in e.split(st, ok):
                    if good:
                        s2.assume(self.isascii(v.z))
                        s2.assume(z3.Length(v.z) <= meta["length"])
                        res.append((s2, v))
                    else:
                        res.append((s2, Exc("UnicodeDecodeError", f"non-ascii byte in {attr}", node.lineno)))
                return res
        if v.t[0] == "cls" and v.z is not None:
            return [(st, Val(("symcls",), v.z))]
        return [(st, v)]

    def field_set(self, base: Val, attr: str, v: Val, st: State, node, raw=False):
        """-> list of (state, None | Exc)"""
        e = self.e
        cls = base.t[1]
        fd = e.field_decl(cls, attr)
        if fd is None:
            # property setter?
            fm = e.src.find_method(cls, attr + ".setter")
            if fm is not None and (f"{fm[1]}.{attr}.setter" in e.reg.inline or f"{fm[1]}.{attr}" in e.reg.inline):
                return [(s, r if isinstance(r, Exc) else None) for s, r in e.inline_call(fm, base, [v], {}, st, node)]
            con = None
            for c in e.class_chain(cls):
                con = e.reg.find_contract(f"{c}.{attr}.setter")
                if con:
                    break
            if con is not None:
                return [(s, r if isinstance(r, Exc) else None) for s, r in e.apply_contract(con, base, [v], {}, st, node, fm)]
            raise Unsupported(f"attribute {cls}.{attr} is not declared in the class model", node, e.path)
        dcls, t, decl = fd
        out = []
        null_split = e.split(st, base.z == e.S.null) if (not e.spec_mode and e.opts.get("check_null", True)) else [(st, False)]
        for s, isnull in null_split:
            if isnull:
                out.append((s, Exc("AttributeError", f"None.{attr} = ...", node.lineno)))
                continue
            if getattr(decl, "ctypes", False) and not raw:
                out.extend(self.ctypes_store(base, dcls, attr, decl, v, s, node))
            else:
                v2 = e.adapt_empty(v, t)
                if t[0] == "cls" and v2.t[0] == "cls" and v2.z is None:
                    v2 = Val(CLS, z3.IntVal(e.class_id(v2.conc)))
                if t[0] == "cls" and v2.t[0] == "symcls":
                    v2 = Val(CLS, v2.z)
                e.store_field(s, base, attr, v2, node)
                out.append((s, None))
        return out

    def wrap(self, z, meta):
        lo, hi = self.e.int_range(meta)
        m = hi - lo + 1
        return z3.If(z3.And(z >= lo, z <= hi), z, ((z - lo) % m) + lo)

    def validation_on(self, st):
        return self.e.truth(self.e.global_val(st, "_VALIDATION_ENABLED"))

    def ctypes_store(self, base, dcls, attr, decl, v: Val, st, node):
        """descriptor __set__ of the validators (semantics taken from validators.py, whose own
        functions are verified under C09); with validation disabled ctypes truncates."""
        e = self.e
        kind, meta = decl.cfields[attr]
        out = []
        if kind == "int":
            self.use("ctypes: storing an int into a c_intN field keeps the low N bits (two's complement)")
            if v.t[0] not in ("int", "bool"):
                if v.t[0] == "float":
                    out.append((st, Exc("TypeError", f"float into int field {attr}", node.lineno)))
                    return out
                raise Unsupported(f"store of {tstr(v.t)} into int field {attr}", node, e.path)
            z = e.coerce(v, INT).z
            lo, hi = e.int_range(meta)
            inr = z3.And(z >= lo, z <= hi)
            for s, von in e.split(st, self.validation_on(st)):
                if not von:
                    # validation disabled: ctypes keeps the low bits
                    e.store_field(s, base, attr, Val(INT, z3.simplify(self.wrap(z, meta))), node)
                    out.append((s, None))
                    continue
                for s2, ok in e.split(s, inr):
                    if ok:
                        e.store_field(s2, base, attr, Val(INT, z), node)
                        out.append((s2, None))
                    else:
                        out.append((s2, Exc("ValueError", f"{attr} out of range", node.lineno)))
            return out
        if kind in ("float", "double"):
            z = e.coerce(v, FLOAT, node).z
            if kind == "float":
                self.use("ctypes: c_float store rounds to binary32 (RNE)")
                z32 = z3.fpToFP(z3.RNE(), z, z3.Float32())
                stored = z3.fpToFP(z3.RNE(), z32, e.S.Float)
            else:
                stored = z
            bad = z3.And(z3.fpIsInf(stored))
            for s, isbad in e.split(st, bad):
                if isbad:
                    for s2, von in e.split(s, self.validation_on(s)):
                        if von:
                            out.append((s2, Exc("ValueError", f"{attr} not representable", node.lineno)))
                        else:
                            e.store_field(s2, base, attr, Val(FLOAT, stored), node)
                            out.append((s2, None))
                else:
                    e.store_field(s, base, attr, Val(FLOAT, stored), node)
                    out.append((s, None))
            return out
        if kind in ("string", "char"):
            if v.t[0] != "str":
                raise Unsupported(f"store of {tstr(v.t)} into string field {attr}", node, e.path)
            n = meta["length"]
            self.use("ctypes: c_char array store raises ValueError when len(bytes) > size; str.encode('ascii') raises UnicodeEncodeError on non-ascii")
            L = z3.Length(v.z)
            asc = self.isascii(v.z)
            for s, von in e.split(st, self.validation_on(st)):
                lim = n - 1 if (von and kind == "string") else n
                for s2, okl in e.split(s, L <= lim):
                    if not okl:
                        out.append((s2, Exc("ValueError", f"string too long for {attr}", node.lineno)))
                        continue
                    for s3, oka in e.split(s2, asc):
                        if not oka:
                            out.append((s3, Exc("TypeError" if von else "UnicodeEncodeError", f"non-ascii into {attr}", node.lineno)))
                            continue
                        e.store_field(s3, base, attr, v, node)
                        hc, hf = e.hkey(dcls, attr, decl)
                        okarr = e.heap_arr(s3, hc, hf + "$ascii", BOOL)
                        s3.heap[(hc, hf + "$ascii")] = z3.Store(okarr, base.z, True)
                        if s3.written is not None:
                            s3.written.add(("heap", hc, hf + "$ascii"))
                        out.append((s3, None))
            return out
        if kind == "byte":
            z = e.coerce(v, INT, node).z
            for s, ok in e.split(st, z3.And(z >= 0, z <= 255)):
                if ok:
                    e.store_field(s, base, attr, Val(INT, z), node)
                    out.append((s, None))
                else:
                    for s2, von in e.split(s, self.validation_on(s)):
                        if von:
                            out.append((s2, Exc("ValueError", f"{attr} out of range", node.lineno)))
                        else:
                            e.store_field(s2, base, attr, Val(INT, z % 256), node)
                            out.append((s2, None))
            return out
        if kind == "struct":
            raise Unsupported(f"whole-struct assignment to {attr}", node, e.path)
        raise Unsupported(f"descriptor store for kind {kind}", node, e.path)

    def dynamic_attr(self, base, attr, st, node):
        e = self.e
        if attr == "_fields_":
            d = e.class_decl(base.t[1])
            if d is not None and getattr(d, "cinfo", None):
                self.use("MessageMeta / ctypes: <obj>._fields_ is the _fields_ of the object's own class and lists ('_'+name, ctype) only for the descriptors that class declares itself "
                         "(inherited fields belong to the base class's _fields_)")
                outs = []
                cands = [c for c in sorted(set(e.subclasses_of(base.t[1])) | {base.t[1]}) if getattr(e.class_decl(c), "cinfo", None)]
                for c in cands:
                    cond = e.dtype_fn(base.z) == e.class_id(c)
                    if len(cands) > 1 and not e.feasible(st, cond):
                        continue
                    s2 = st.fork() if len(cands) > 1 else st
                    if len(cands) > 1:
                        s2.assume(cond)
                    ci = e.class_decl(c).cinfo
                    own = ci["fields"][ci.get("own_start", 0):] if c != base.t[1] or ci.get("own_start", 0) else ci["fields"]
                    if c == base.t[1] and not ci.get("own_start", 0):
                        own = ci["fields"]
                    items = [Val(("tuple", STR, ("ctype",)), (e.const_val("_" + f), Val(("ctype",), None, conc=(k, m)))) for f, k, m in own]
                    outs.append((s2, Val(("conclist",), items)))
                if outs:
                    return outs
        # the attribute may belong to the dynamic class (after an isinstance test): dispatch on dtype
        cands = [c for c in e.subclasses_of(base.t[1]) if c != base.t[1] and e.field_decl(c, attr) is not None]
        out = []
        for c in sorted(cands):
            cond = e.dtype_fn(base.z) == e.class_id(c)
            if e.feasible(st, cond):
                s2 = st.fork()
                s2.assume(cond)
                out.extend(e.get_attr(Val(ref(c), base.z), attr, s2, node))
        if out:
            rest = st.fork()
            for c in cands:
                rest.assume(e.dtype_fn(base.z) != e.class_id(c))
            if e.feasible(rest):
                out.append((rest, Exc("AttributeError", f"{base.t[1]}.{attr}", getattr(node, "lineno", 0))))
            return out
        # a class-level constant defined in the source (possibly differently in the subclasses): looked up on the object's own class
        static = base.t[1]
        per = {}
        for c in sorted(set(e.subclasses_of(static)) | {static}):
            try:
                v = e.src.class_const(c, attr)
            except (KeyError, Exception):
                per = None
                break
            if isinstance(v, (bool, int, float, str)):
                per[c] = v
            else:
                per = None
                break
        if per:
            self.use(f"class constant {attr} read from the class body in the source (per concrete class)")
            vals = sorted(set(per.values()), key=repr)
            if len(vals) == 1:
                return [(st, e.const_val(vals[0]))]
            outs = []
            for c, v in sorted(per.items()):
                cond = e.dtype_fn(base.z) == e.class_id(c)
                if e.feasible(st, cond):
                    s2 = st.fork()
                    s2.assume(cond)
                    outs.append((s2, e.const_val(v)))
            if outs:
                return outs
        raise Unsupported(f"attribute {base.t[1]}.{attr} is not declared in the class model", node, e.path)

    def class_attr(self, cname, attr, st, node):
        e = self.e
        d = e.class_decl(cname)
        if d is not None and getattr(d, "cinfo", None) and attr in d.cinfo["classvars"]:
            return [(st, e.const_val(d.cinfo["classvars"][attr]))]
        if attr in ("from_buffer", "from_buffer_copy"):
            return [(st, Val(("boundmethod",), (Val(CLS, None, conc=cname), attr)))]
        # class-level constant in source (e.g. MessageManager.TRAFFIC_INTERVAL)
        ent = e.src.find_class(cname)
        if ent:
            for c in e.src.mro(cname):
                ent2 = e.src.find_class(c)
                if not ent2:
                    continue
                for stt in ent2[1].body:
                    tgt = None
                    if isinstance(stt, ast.Assign) and isinstance(stt.targets[0], ast.Name):
                        tgt, val = stt.targets[0].id, stt.value
                    elif isinstance(stt, ast.AnnAssign) and isinstance(stt.target, ast.Name) and stt.value is not None:
                        tgt, val = stt.target.id, stt.value
                    if tgt == attr:
                        try:
                            return [(st, e.const_val(e.src.eval_const(e.src.modules[ent2[0]], val)))]
                        except KeyError:
                            pass
        raise Unsupported(f"class attribute {cname}.{attr}", node, e.path)

    # ================================================================== containers
    def list_concat(self, a: Val, b: Val) -> Val:
        e = self.e
        b = e.adapt_empty(b, a.t)
        a = e.adapt_empty(a, b.t)
        i = z3.Int(fresh_name("i"))
        na, nb = e.list_len(a), e.list_len(b)
        at = z3.Lambda([i], z3.If(i < na, z3.Select(e.list_at(a), i), z3.Select(e.list_at(b), i - na)))
        return e.mk_list(a.t, na + nb, at)

    def unpack(self, v: Val, n: int, st, node):
        e = self.e
        if v.t[0] == "tuple":
            if len(v.z) != n:
                raise Unsupported(f"unpacking {len(v.z)} values into {n} targets", node, e.path)
            return list(v.z)
        raise Unsupported(f"unpacking a {tstr(v.t)}", node, e.path)

    def container_store(self, base: Val, idx: Val, v: Val, st, node, target_expr=None):
        """base[idx] = v  -> list of (state, new container | Exc | None)"""
        e = self.e
        k = base.t[0]
        if k == "dict":
            dt = e.sort(base.t)
            kz = e.coerce(idx, base.t[1], node).z
            vz = e.coerce(e.adapt_empty(v, base.t[2]), base.t[2], node).z
            return [(st, Val(base.t, dt.mk(z3.Store(dt.dom(base.z), kz, True), z3.Store(dt.val(base.z), kz, vz))))]
        if k == "list":
            i = e.coerce(idx, INT, node).z
            n = e.list_len(base)
            out = []
            for s, ok in e.split(st, z3.And(i >= -n, i < n)):
                if ok:
                    j = z3.simplify(z3.If(i < 0, i + n, i))
                    out.append((s, e.mk_list(base.t, n, z3.Store(e.list_at(base), j, e.coerce(v, base.t[1], node).z))))
                else:
                    out.append((s, Exc("IndexError", "list assignment index out of range", node.lineno)))
            return out
        if k == "carray":
            return self.carray_store(base, idx, v, st, node, target_expr)
        if k == "map":
            return [(st, Val(base.t, z3.Store(base.z, e.coerce(idx, base.t[1], node).z, e.coerce(v, base.t[2], node).z)))]
        raise Unsupported(f"item assignment on {tstr(base.t)}", node, e.path)

    def carray_meta(self, target_expr, st):
        """(kind, meta) of the ctypes array field an expression `obj.field` denotes"""
        e = self.e
        if isinstance(target_expr, ast.Attribute):
            bv = e.sv(target_expr.value, st) if e.is_pure(target_expr.value) else None
            if bv is not None and bv.t[0] == "ref":
                fd = e.field_decl(bv.t[1], target_expr.attr)
                if fd and getattr(fd[2], "ctypes", False):
                    return fd[2].cfields[target_expr.attr]
        return None

    def carray_store(self, base, idx, v, st, node, target_expr):
        e = self.e
        n = base.t[2]
        i = e.coerce(idx, INT, node).z
        km = self.carray_meta(target_expr, st)
        out = []
        self.use("ctypes arrays: index must lie in [-len, len) (IndexError otherwise); negative indices wrap")
        for s, ok in e.split(st, z3.And(i >= -n, i < n)):
            if not ok:
                out.append((s, Exc("IndexError", "invalid index", node.lineno)))
                continue
            j = z3.simplify(z3.If(i < 0, i + n, i))
            if base.t[1] == INT:
                z = e.coerce(v, INT, node).z
                meta = dict(size=km[1]["esize"], signed=km[1].get("signed", False)) if km and km[0] == "intarray" else dict(size=1, signed=False)
                lo, hi = e.int_range(meta)
                for s2, inr in e.split(s, z3.And(z >= lo, z <= hi)):
                    if inr:
                        out.append((s2, Val(base.t, z3.Store(base.z, j, z))))
                    else:
                        for s3, von in e.split(s2, self.validation_on(s2)):
                            if von:
                                out.append((s3, Exc("ValueError", "array element out of range", node.lineno)))
                            else:
                                out.append((s3, Val(base.t, z3.Store(base.z, j, self.wrap(z, meta)))))
            elif base.t[1] == FLOAT:
                out.append((s, Val(base.t, z3.Store(base.z, j, e.coerce(v, FLOAT, node).z))))
            else:
                raise Unsupported("element store into struct array", node, e.path)
        return out

    def slice_get(self, base, lo, hi, step, st, node):
        e = self.e
        if step is not None:
            raise Unsupported("slice with step", node, e.path)
        if base.t[0] == "list":
            n = e.list_len(base)
            def norm(v, dflt):
                if v is None or v.t[0] == "none":
                    return dflt
                z = e.coerce(v, INT).z
                return z3.If(z < 0, z3.If(z + n < 0, z3.IntVal(0), z + n), z3.If(z > n, n, z))
            a, b = norm(lo, z3.IntVal(0)), norm(hi, n)
            i = z3.Int(fresh_name("i"))
            ln = z3.If(b > a, b - a, z3.IntVal(0))
            return [(st, e.mk_list(base.t, z3.simplify(ln), z3.Lambda([i], z3.Select(e.list_at(base), i + a))))]
        if base.t[0] == "ref" and base.t[1] in ("Buffer", "memoryview", "bytes", "bytearray"):
            return self.buffer_slice(base, lo, hi, st, node)
        if base.t[0] == "str" and base.conc is not None and all(x is None or x.conc is not None for x in (lo, hi)):
            return [(st, e.const_val(base.conc[(lo.conc if lo else None):(hi.conc if hi else None)]))]
        raise Unsupported(f"slice of {tstr(base.t)}", node, e.path)

    def buffer_slice(self, base, lo, hi, st, node):
        """memoryview / bytes slicing: a new view object; only its byte length is modelled"""
        e = self.e
        self.use("memoryview slicing clamps like list slicing: len(v[:n]) == min(max(n,0) if n>=0 else max(len+n,0), len)")
        n = self.nbytes(base.z)
        def norm(v, dflt):
            if v is None or v.t[0] == "none":
                return dflt
            z = e.coerce(v, INT).z
            return z3.If(z < 0, z3.If(z + n < 0, z3.IntVal(0), z + n), z3.If(z > n, n, z))
        a, b = norm(lo, z3.IntVal(0)), norm(hi, n)
        r = e.new_object(st, "Buffer", "view")
        st.assume(self.nbytes(r.z) == z3.If(b > a, b - a, z3.IntVal(0)))
        st.assume(n >= 0)
        # the view shares the bytes of its base: record the base for content reasoning
        e.store_field(st, r, "base", base)
        return [(st, r)]

    def bytes_literal(self, c: bytes) -> Val:
        e = self.e
        r = z3.Const(f"bytes_{c.hex() or 'empty'}", e.S.Ref)
        v = Val(ref("Buffer"), r)
        v.conc = c
        return v

    def slice_set(self, tgt, v, st):
        e = self.e
        node = tgt
        if tgt.slice.step is not None:
            raise Unsupported("slice assignment with step", node, e.path)
        out = []
        parts = [tgt.value] + [x for x in (tgt.slice.lower, tgt.slice.upper) if x is not None]
        for s, vals in e.ev_seq(parts, st):
            if isinstance(vals, Exc):
                out.append((s, ("raise", vals)))
                continue
            base = vals[0]
            it = iter(vals[1:])
            lo = next(it) if tgt.slice.lower is not None else None
            hi = next(it) if tgt.slice.upper is not None else None
            if base.t[0] != "carray" or v.t[0] != "list":
                raise Unsupported(f"slice assignment on {tstr(base.t)}", node, e.path)
            n = base.t[2]
            def norm(x, dflt):
                if x is None:
                    return z3.IntVal(dflt)
                z = e.coerce(x, INT).z
                return z3.If(z < 0, z3.If(z + n < 0, z3.IntVal(0), z + n), z3.If(z > n, z3.IntVal(n), z))
            a, b = norm(lo, 0), norm(hi, n)
            span = z3.If(b > a, b - a, z3.IntVal(0))
            self.use("ctypes arrays: slice assignment requires len(value) == slice length (ValueError otherwise) and is checked before any element is written")
            km = self.carray_meta(tgt.value, s)
            for s2, ok in e.split(s, e.list_len(v) == span):
                if not ok:
                    out.append((s2, ("raise", Exc("ValueError", "Can only assign sequence of same size", node.lineno))))
                    continue
                i = z3.Int(fresh_name("i"))
                src = z3.Select(e.list_at(v), i - a)
                if base.t[1] == INT and km and km[0] == "intarray":
                    meta = dict(size=km[1]["esize"], signed=km[1].get("signed", False))
                    lo_, hi_ = e.int_range(meta)
                    k = z3.Int(fresh_name("k"))
                    allin = z3.ForAll([k], z3.Implies(z3.And(0 <= k, k < e.list_len(v)),
                                                      z3.And(z3.Select(e.list_at(v), k) >= lo_, z3.Select(e.list_at(v), k) <= hi_)))
                    # elements out of range: validation on -> ValueError, off -> wrap
                    for s3, inr in e.split(s2, allin):
                        if inr:
                            nz = z3.Lambda([i], z3.If(z3.And(i >= a, i < b), src, z3.Select(base.z, i)))
                            out.extend(e.assign_lvalue(tgt.value, Val(base.t, nz), s3, raw=True))
                        else:
                            for s4, von in e.split(s3, self.validation_on(s3)):
                                if von:
                                    out.append((s4, ("raise", Exc("ValueError", "array slice out of range", node.lineno))))
                                else:
                                    nz = z3.Lambda([i], z3.If(z3.And(i >= a, i < b), self.wrap(src, meta), z3.Select(base.z, i)))
                                    out.extend(e.assign_lvalue(tgt.value, Val(base.t, nz), s4, raw=True))
                else:
                    nz = z3.Lambda([i], z3.If(z3.And(i >= a, i < b), src, z3.Select(base.z, i)))
                    out.extend(e.assign_lvalue(tgt.value, Val(base.t, nz), s2, raw=True))
        return out

    def subscript_other(self, base, idx, st, node):
        e = self.e
        if base.t[0] == "conclist" and idx.conc is not None:
            return [(st, base.z[idx.conc])]
        if base.t[0] == "modattr" and idx.conc is not None:
            # module-level dict literal whose values are constructor calls with constant arguments (e.g. supported_types)
            mn, an = base.conc.rsplit(".", 1)
            m = e.src.modules.get(mn)
            node0 = m.assigns.get(an) if m else None
            if isinstance(node0, ast.Dict):
                for kx, vx in zip(node0.keys, node0.values):
                    if isinstance(kx, ast.Constant) and kx.value == idx.conc and isinstance(vx, ast.Call) and isinstance(vx.func, ast.Name):
                        cname = vx.func.id
                        r = z3.Const(f"const_{an}_{str(idx.conc).replace(' ', '_')}", e.S.Ref)
                        obj = Val(ref(cname), r)
                        st.assume(r != e.S.null)
                        st.assume(e.dtype_fn(r) == e.class_id(cname))
                        if st.old is not None:
                            st.assume(z3.Select(st.old.alloc, r))
                        for kw in vx.keywords:
                            fd = e.field_decl(cname, kw.arg)
                            if fd is not None and isinstance(kw.value, ast.Constant):
                                fv = e.load_field(st, obj, kw.arg)
                                st.assume(fv.z == e.coerce(e.const_val(kw.value.value), fv.t).z)
                        self.use(f"module-level table {an}: entries are immutable objects with the field values written in the source")
                        return [(st, obj)]
                return [(st, Exc("KeyError", f"{an}[{idx.conc!r}]", getattr(node, "lineno", 0)))]
        if base.t[0] == "modattr" and idx.conc is None and idx.t == STR:
            # symbolic key into a module-level dict literal of constructor calls: one of its (immutable, pre-allocated) entries, or KeyError
            mn, an = base.conc.rsplit(".", 1)
            m = e.src.modules.get(mn)
            node0 = m.assigns.get(an) if m else None
            if isinstance(node0, ast.Dict) and node0.keys and all(isinstance(kx, ast.Constant) and isinstance(kx.value, str) and isinstance(vx, ast.Call) and isinstance(vx.func, ast.Name)
                                                                  for kx, vx in zip(node0.keys, node0.values)):
                cnames = {vx.func.id for vx in node0.values}
                if len(cnames) == 1:
                    cname = cnames.pop()
                    member = z3.Or([idx.z == e.const_val(kx.value).z for kx in node0.keys])
                    outs = []
                    for s2, has in e.split(st, member):
                        if has:
                            r = z3.Const(fresh_name(f"entry_{an}"), e.S.Ref)
                            s2.assume(r != e.S.null)
                            s2.assume(e.dtype_fn(r) == e.class_id(cname))
                            if s2.old is not None:
                                s2.assume(z3.Select(s2.old.alloc, r))
                            self.use(f"module-level table {an}: entries are immutable objects allocated before the call")
                            outs.append((s2, Val(ref(cname), r)))
                        else:
                            outs.append((s2, Exc("KeyError", f"{an}[...]", getattr(node, "lineno", 0))))
                    return outs
        if base.t[0] == "ref" and base.t[1] == "Address" and idx.conc in (0, 1):
            return [(st, e.load_field(st, base, "host" if idx.conc == 0 else "portno", node))]
        raise Unsupported(f"subscript on {tstr(base.t)}", node, e.path)
