"""pyvc.lib_calls -- method calls on containers, builtins, stdlib functions, constructors."""
from __future__ import annotations
import ast, re
import z3
from .core import *
from .engine import Unsupported

NORMAL = ("normal",)


class LibCalls:
    # ================================================================== container methods
    def call_method(self, base: Val, name: str, args, kwargs, st: State, node, origin):
        e = self.e
        k = base.t[0]
        recv_expr = node.func.value if isinstance(node.func, ast.Attribute) else origin

        def writeback(s, nv):
            outs = e.assign_lvalue(recv_expr, nv, s, raw=True)
            res = [(s2, (oc[1] if oc[0] == "raise" else e.const_val(None))) for s2, oc in outs]
            hook = e.contract.ghost_after.get(f"{k}.{name}") if (e.contract is not None and len(st.frames) == 1 and not e.spec_mode and not e.ghost_mode) else None
            if hook:
                res2 = []
                for s2, r in res:
                    if isinstance(r, Exc):
                        res2.append((s2, r))
                    else:
                        for s3 in e.exec_ghost(hook, s2):
                            res2.append((s3, r))
                return res2
            return res

        if k == "set":
            et = base.t[1]
            if name in ("add", "discard", "remove"):
                x = e.coerce(args[0], et, node).z
                if name == "add":
                    return writeback(st, Val(base.t, z3.Store(base.z, x, True)))
                if name == "discard":
                    return writeback(st, Val(base.t, z3.Store(base.z, x, False)))
                out = []
                for s, present in e.split(st, z3.Select(base.z, x)):
                    if present:
                        out.extend(writeback(s, Val(base.t, z3.Store(base.z, x, False))))
                    else:
                        out.append((s, Exc("KeyError", "set.remove of a missing element", node.lineno)))
                return out
            if name == "clear":
                return writeback(st, e.empty_set(et))
            if name == "copy":
                return [(st, Val(base.t, base.z))]
            if name in ("union", "difference", "intersection"):
                op = {"union": ast.BitOr(), "difference": ast.Sub(), "intersection": ast.BitAnd()}[name]
                other = args[0]
                if other.t[0] == "list":
                    other = self.set_of_list(other, st)
                return e.binop(op, base, other, st, node)
            if name == "update" or name == "difference_update":
                other = args[0]
                if other.t[0] == "list":
                    other = self.set_of_list(other, st)
                rs = e.binop(ast.BitOr() if name == "update" else ast.Sub(), base, other, st, node)
                out = []
                for s, nv in rs:
                    out.extend(writeback(s, nv))
                return out
            if name == "issubset":
                return [(st, Val(BOOL, e.compare(ast.LtE(), base, args[0], st, node)))]
        if k == "list":
            et = base.t[1]
            n, at = e.list_len(base), e.list_at(base)
            if name == "append":
                if et == ("unknown",):
                    et = args[0].t
                    base = e.empty_list(et)
                    n, at = e.list_len(base), e.list_at(base)
                x = e.coerce(args[0], et, node).z
                return writeback(st, e.mk_list(("list", et), n + 1, z3.Store(at, n, x)))
            if name == "clear":
                return writeback(st, e.empty_list(et))
            if name == "copy":
                return [(st, Val(base.t, base.z))]
            if name == "extend":
                return writeback(st, self.list_concat(base, args[0]))
            if name in ("remove", "index"):
                self.use("list.remove/index: first occurrence; ValueError when absent")
                x = e.coerce(args[0], et, node).z
                out = []
                j = z3.Int(fresh_name("pos"))
                i = z3.Int(fresh_name("i"))
                present = e.contains(base, args[0], st, node)
                for s, ok in e.split(st, present):
                    if not ok:
                        out.append((s, Exc("ValueError", f"list.{name}(x): x not in list", node.lineno)))
                        continue
                    s.assume(z3.And(0 <= j, j < n, z3.Select(at, j) == x))
                    s.assume(z3.ForAll([i], z3.Implies(z3.And(0 <= i, i < j), z3.Select(at, i) != x)))
                    if name == "index":
                        out.append((s, Val(INT, j)))
                    else:
                        nat = z3.Lambda([i], z3.If(i < j, z3.Select(at, i), z3.Select(at, i + 1)))
                        out.extend(writeback(s, e.mk_list(base.t, n - 1, nat)))
                return out
            if name == "pop" and not args:
                out = []
                for s, ok in e.split(st, n > 0):
                    if ok:
                        v = Val(et, z3.Select(at, n - 1))
                        for s2, r in writeback(s, e.mk_list(base.t, n - 1, at)):
                            out.append((s2, r if isinstance(r, Exc) else v))
                    else:
                        out.append((s, Exc("IndexError", "pop from empty list", node.lineno)))
                return out
            if name == "insert" and args[0].conc != 0:
                self.use("list.insert(i, x) with 0 <= i <= len: elements from i on shift right by one")
                pos = e.coerce(args[0], INT, node).z
                x = e.coerce(args[1], et, node).z
                pos = z3.If(pos < 0, z3.If(pos + n < 0, z3.IntVal(0), pos + n), z3.If(pos > n, n, pos))
                L2 = e.fresh(base.t, "ins")
                i = z3.Int(fresh_name("i"))
                st.assume(e.list_len(L2) == n + 1)
                st.assume(z3.ForAll([i], z3.Select(e.list_at(L2), i) == z3.If(i < pos, z3.Select(at, i), z3.If(i == pos, x, z3.Select(at, i - 1))),
                                    patterns=[z3.Select(e.list_at(L2), i)]))
                return writeback(st, L2)
            if name == "insert" and args[0].conc == 0:
                x = e.coerce(args[1], et, node).z
                i = z3.Int(fresh_name("i"))
                nat = z3.Lambda([i], z3.If(i == 0, x, z3.Select(at, i - 1)))
                return writeback(st, e.mk_list(base.t, n + 1, nat))
            if name == "count":
                raise Unsupported("list.count", node, e.path)
        if k == "dict":
            dt = e.sort(base.t)
            if name == "get":
                kz = e.coerce(args[0], base.t[1], node).z
                present = z3.Select(dt.dom(base.z), kz)
                val = z3.Select(dt.val(base.z), kz)
                vt = base.t[2]
                if len(args) > 1 and args[1].t[0] != "none":
                    d = e.coerce(args[1], vt, node).z
                    return [(st, Val(vt, z3.If(present, val, d)))]
                if vt[0] in ("ref",):
                    return [(st, Val(vt, z3.If(present, val, e.S.null)))]
                out = []
                for s, ok in e.split(st, present):
                    out.append((s, Val(vt, val) if ok else e.const_val(None)))
                return out
            if name in ("keys", "values", "items"):
                if base.t[3] == "default" and not e.spec_mode:
                    raise Unsupported("iteration over a defaultdict (reads insert keys; not modelled)", node, e.path)
                return [(st, Val(("dictview",), (name, base), origin=recv_expr))]
            if name == "clear":
                return writeback(st, e.empty_dict(base.t))
            if name == "pop":
                kz = e.coerce(args[0], base.t[1], node).z
                present = z3.Select(dt.dom(base.z), kz)
                out = []
                nv = Val(base.t, dt.mk(z3.Store(dt.dom(base.z), kz, False), dt.val(base.z)))
                for s, ok in e.split(st, present):
                    if ok:
                        for s2, r in writeback(s, nv):
                            out.append((s2, r if isinstance(r, Exc) else Val(base.t[2], z3.Select(dt.val(base.z), kz))))
                    elif len(args) > 1:
                        out.append((s, args[1]))
                    else:
                        out.append((s, Exc("KeyError", "dict.pop of a missing key", node.lineno)))
                return out
            if name == "update":
                other = args[0]
                if other.t[0] != "dict":
                    raise Unsupported("dict.update with a non-dict", node, e.path)
                x = z3.Const(fresh_name("k"), e.sort(base.t[1]))
                odt = e.sort(other.t)
                ndom = z3.Lambda([x], z3.Or(z3.Select(dt.dom(base.z), x), z3.Select(odt.dom(other.z), x)))
                nval = z3.Lambda([x], z3.If(z3.Select(odt.dom(other.z), x), z3.Select(odt.val(other.z), x), z3.Select(dt.val(base.z), x)))
                return writeback(st, Val(base.t, dt.mk(ndom, nval)))
        if k == "str":
            if name == "isascii":
                return [(st, Val(BOOL, self.isascii(base.z)))]
            if name == "encode":
                out = []
                for s, ok in e.split(st, self.isascii(base.z)):
                    if ok:
                        r = e.new_object(s, "Buffer", "enc")
                        s.assume(self.nbytes(r.z) == z3.Length(base.z))
                        out.append((s, r))
                    else:
                        out.append((s, Exc("UnicodeEncodeError", "non-ascii", node.lineno)))
                return out
            if name == "startswith" and args[0].t[0] == "str":
                return [(st, Val(BOOL, z3.PrefixOf(args[0].z, base.z)))]
            if name == "endswith" and args[0].t[0] == "str":
                return [(st, Val(BOOL, z3.SuffixOf(args[0].z, base.z)))]
            if base.conc is not None and all(a.conc is not None for a in args):
                try:
                    return [(st, e.const_val(getattr(base.conc, name)(*[a.conc for a in args])))]
                except Exception as ex:
                    return [(st, Exc(type(ex).__name__, str(ex), node.lineno))]
        if k in ("ctxvar", "globalvar"):
            self.use("contextvars.ContextVar: set() returns a token holding the previous value; reset(token) restores it")
            if k == "globalvar":
                cur = e.global_val(st, base.conc)
                def write(s, nv):
                    e.set_global(s, base.conc, nv)
                    return [(s, None)]
            else:
                cur = base
                def write(s, nv):
                    return writeback(s, nv)
            T = cur.t[1]
            if name == "get":
                return [(st, Val(T, cur.z))]
            if name == "set":
                tok = Val(("token", T), cur.z)
                return [(s, r if isinstance(r, Exc) else tok) for s, r in write(st, Val(cur.t, e.coerce(args[0], T, node).z))]
            if name == "reset":
                return [(s, r if isinstance(r, Exc) else e.const_val(None)) for s, r in write(st, Val(cur.t, args[0].z))]
        if k == "map" and name == "get" and base.t[2][0] == "set":
            # defaultdict modelled as a total map (absent keys read as the empty default): get() does not insert; for an empty entry the key may be
            # absent (-> default / None) or present with an empty set: both outcomes are explored; a non-empty entry is present
            kz = e.coerce(args[0], base.t[1], node).z
            val = Val(base.t[2], z3.Select(base.z, kz))
            x = z3.Const(fresh_name("x"), e.sort(base.t[2][1]))
            nonempty = z3.Exists([x], z3.Select(val.z, x))
            out = []
            for s, ne in e.split(st, nonempty):
                out.append((s, val))
                if not ne:
                    s2 = s.fork()
                    out.append((s2, args[1] if len(args) > 1 else e.const_val(None)))
            return out
        if k == "dynbytes" and name == "decode":
            enc = args[0].conc if args else (kwargs.get("encoding").conc if "encoding" in kwargs else "utf-8")
            if enc != "ascii":
                raise Unsupported(f"bytes.decode({enc!r})", node, e.path)
            errors = args[1] if len(args) > 1 else kwargs.get("errors")
            if errors is not None and not (errors.conc == "strict"):
                # errors='replace' / 'ignore' ...: never raises; bytes >= 128 are replaced or dropped, so the result is NOT known to be the content nor ASCII-only in general
                self.use("bytes.decode('ascii', errors != 'strict') never raises; the result is some string (U+FFFD for undecodable bytes with 'replace')")
                return [(st, e.fresh(STR, "decoded"))]
            self.use("bytes.decode('ascii'): the same characters if every byte is < 128, UnicodeDecodeError otherwise")
            out = []
            for s, ok in e.split(st, self.isascii(base.z)):
                out.append((s, Val(STR, base.z)) if ok else (s, Exc("UnicodeDecodeError", "'ascii' codec can't decode byte", node.lineno)))
            return out
        if k == "concdict" and name == "get":
            key = e.coerce(args[0], INT, node).z
            out = []
            rest = []
            for kk, cname in base.z.items():
                if e.feasible(st, key == kk):
                    s2 = st.fork()
                    s2.assume(key == kk)
                    out.append((s2, Val(CLS, None, conc=cname)))
                rest.append(key != kk)
            s3 = st.fork()
            for c in rest:
                s3.assume(c)
            if e.feasible(s3):
                out.append((s3, args[1] if len(args) > 1 else e.const_val(None)))
            return out
        if k == "symcls" and name in ("from_buffer", "from_buffer_copy"):
            return self.from_buffer(None, args[0], st, node, symcls=base)
        if k == "cls" and name in ("from_buffer", "from_buffer_copy"):
            return self.from_buffer(base.conc, args[0], st, node, copy=(name == "from_buffer_copy"))
        h = getattr(self, f"m_{k}_{name}", None)
        if h is not None:
            return h(base, args, kwargs, st, node)
        raise Unsupported(f"method {tstr(base.t)}.{name}", node, e.path)

    def set_of_list(self, lst: Val, st=None) -> Val:
        e = self.e
        x = z3.Const(fresh_name("x"), e.sort(lst.t[1]))
        i = z3.Int(fresh_name("i"))
        body = z3.Exists([i], z3.And(0 <= i, i < e.list_len(lst), z3.Select(e.list_at(lst), i) == x))
        if st is None:
            return Val(("set", lst.t[1]), z3.Lambda([x], body))
        S = z3.Const(fresh_name("setof"), z3.ArraySort(e.sort(lst.t[1]), z3.BoolSort()))
        st.assume(z3.ForAll([x], z3.Select(S, x) == body, patterns=[z3.Select(S, x)]))
        j = z3.Int(fresh_name("j"))
        elem_in = z3.Implies(z3.And(0 <= j, j < e.list_len(lst)), z3.Select(S, z3.Select(e.list_at(lst), j)))
        try:
            st.assume(z3.ForAll([j], elem_in, patterns=[z3.Select(e.list_at(lst), j)]))
        except z3.Z3Exception:      # the element term is not a usable trigger (a list given by a lambda is beta-reduced): leave the choice to the solver
            st.assume(z3.ForAll([j], elem_in))
        return Val(("set", lst.t[1]), S)

    # ================================================================== enumeration of finite sets
    def enumerate_set(self, st: State, setz, elem_t, hint="L") -> Val:
        """a list that enumerates a (finite) set exactly once in an arbitrary order"""
        e = self.e
        self.use("iteration over a set / dict visits every element exactly once in an unspecified order")
        es = e.sort(elem_t)
        def _has_lambda(t, d=0):
            if z3.is_quantifier(t):
                return True
            return d < 6 and any(_has_lambda(c, d + 1) for c in t.children())
        if _has_lambda(setz):
            # name the set so that it can serve as a trigger
            named = z3.Const(fresh_name("set"), setz.sort())
            y = z3.Const(fresh_name("y"), es)
            st.assume(z3.ForAll([y], z3.Select(named, y) == z3.Select(setz, y), patterns=[z3.Select(named, y)]))
            setz = named
        L = e.fresh(("list", elem_t), hint)
        n, at = e.list_len(L), e.list_at(L)
        idx = z3.Function(fresh_name("idx"), es, z3.IntSort())
        i = z3.Int(fresh_name("i"))
        x = z3.Const(fresh_name("x"), es)
        st.assume(n >= 0)
        st.assume(z3.ForAll([i], z3.Implies(z3.And(0 <= i, i < n),
                                            z3.And(z3.Select(setz, z3.Select(at, i)), idx(z3.Select(at, i)) == i)),
                            patterns=[z3.Select(at, i)]))
        st.assume(z3.ForAll([x], z3.Implies(z3.Select(setz, x), z3.And(0 <= idx(x), idx(x) < n, z3.Select(at, idx(x)) == x)),
                            patterns=[z3.Select(setz, x)]))
        L.origin = ("enum", idx, setz)
        return L

    # ================================================================== builtins
    def call_builtin(self, name, args, kwargs, st, node):
        e = self.e
        if name == "print":
            return [(st, e.const_val(None))]
        if name == "len":
            v = args[0]
            k = v.t[0]
            if k == "list":
                return [(st, Val(INT, e.list_len(v)))]
            if k == "carray":
                return [(st, e.const_val(v.t[2]))]
            if k == "str":
                return [(st, Val(INT, z3.Length(v.z), conc=(len(v.conc) if v.conc is not None else None)))]
            if k == "tuple":
                return [(st, e.const_val(len(v.z)))]
            if k == "conclist":
                return [(st, e.const_val(len(v.z)))]
            if k == "ref" and v.t[1] == "Buffer":
                if v.conc is not None:
                    return [(st, e.const_val(len(v.conc)))]
                return [(st, Val(INT, self.nbytes(v.z)))]
            if k in ("set", "dict"):
                self.use("len(set/dict) = length of an exact enumeration")
                setz = v.z if k == "set" else e.sort(v.t).dom(v.z)
                L = self.enumerate_set(st, setz, v.t[1], "card")
                return [(st, Val(INT, e.list_len(L)))]
            raise Unsupported(f"len of {tstr(v.t)}", node, e.path)
        if name == "isinstance":
            return [(st, Val(BOOL, self.isinstance_z(args[0], args[1], st, node)))]
        if name == "int":
            v = args[0]
            if v.t == PYVAL:
                out = []
                for s, isint in e.split(st, self.pv_kind(v.z) == 0):
                    if isint:
                        out.append((s, Val(INT, self.pv_int(v.z))))
                    else:
                        for s2, isfl in e.split(s, self.pv_kind(v.z) == 1):
                            if isfl:
                                out.extend(self.call_builtin("int", [Val(FLOAT, self.pv_float(v.z))], {}, s2, node))
                            else:
                                self.use("int(x) of a non-number: TypeError / ValueError")
                                out.append((s2, Exc("TypeError", "int() argument", node.lineno)))
                return out
            if v.t[0] in ("int", "bool"):
                return [(st, e.coerce(v, INT))]
            if v.t[0] == "float":
                self.use("int(float) truncates toward zero; raises on inf/nan")
                out = []
                for s, bad in e.split(st, z3.Or(z3.fpIsInf(v.z), z3.fpIsNaN(v.z))):
                    if bad:
                        out.append((s, Exc("ValueError", "int(inf/nan)", node.lineno)))
                    else:
                        out.append((s, Val(INT, z3.ToInt(z3.fpToReal(z3.fpRoundToIntegral(z3.RTZ(), v.z))))))
                return out
            if v.t[0] == "str" and v.conc is not None:
                try:
                    return [(st, e.const_val(int(v.conc)))]
                except ValueError:
                    return [(st, Exc("ValueError", "int(str)", node.lineno))]
        if name == "bool":
            return [(st, Val(BOOL, e.truth(args[0])))]
        if name == "float" and args and args[0].t[0] in ("int", "bool", "float"):
            return [(st, e.coerce(args[0], FLOAT))]
        if name == "str":
            if args and args[0].conc is not None and args[0].t[0] in ("int", "str", "bool"):
                return [(st, e.const_val(str(args[0].conc)))]
            return [(st, e.fresh(STR, "str"))]
        if name == "repr":
            return [(st, e.fresh(STR, "repr"))]
        if name == "range":
            vals = [e.coerce(a, INT, node) for a in args]
            if len(vals) == 1:
                return [(st, Val(("range",), (e.const_val(0), vals[0], e.const_val(1))))]
            if len(vals) == 2:
                return [(st, Val(("range",), (vals[0], vals[1], e.const_val(1))))]
            if vals[2].conc is None or vals[2].conc <= 0:
                raise Unsupported("range with non-constant or non-positive step", node, e.path)
            return [(st, Val(("range",), tuple(vals)))]
        if name == "enumerate":
            start = args[1] if len(args) > 1 else kwargs.get("start", e.const_val(0))
            return [(st, Val(("enumerate",), (args[0], start)))]
        if name == "zip":
            return [(st, Val(("zip",), tuple(args)))]
        if name == "list":
            if not args:
                return [(st, Val(("list", ("unknown",)), None, conc=[]))]
            return self.to_list(args[0], st, node)
        if name == "set":
            if not args:
                return [(st, Val(("set", ("unknown",)), None, conc=[]))]
            v = args[0]
            if v.t[0] == "list":
                return [(st, self.set_of_list(v, st))]
            if v.t[0] == "set":
                return [(st, Val(v.t, v.z))]
            raise Unsupported(f"set({tstr(v.t)})", node, e.path)
        if name in ("setattr", "getattr", "hasattr"):
            return self.reflect(name, args, st, node)
        if name in ("max", "min") and len(args) >= 2 and all(a.t[0] in ("int", "bool") for a in args):
            z = e.coerce(args[0], INT).z
            for a in args[1:]:
                b = e.coerce(a, INT).z
                z = z3.If(b > z, b, z) if name == "max" else z3.If(b < z, b, z)
            return [(st, Val(INT, z))]
        if name in ("max", "min") and len(args) >= 2 and all(a.t[0] in ("int", "bool", "float") for a in args):
            z = e.coerce(args[0], FLOAT).z
            for a in args[1:]:
                b = e.coerce(a, FLOAT).z
                z = z3.If(z3.fpGT(b, z), b, z) if name == "max" else z3.If(z3.fpLT(b, z), b, z)
            return [(st, Val(FLOAT, z))]
        if name in ("max", "min") and len(args) == 1 and args[0].t[0] == "carray":
            return self.max_min(name, e.mk_list(("list", args[0].t[1]), z3.IntVal(args[0].t[2]), args[0].z), st, node)
        if name in ("max", "min") and len(args) == 1 and args[0].t[0] == "list" and args[0].t[1] == PYVAL:
            return self.max_min_pyval(name, args[0], st, node)
        if name in ("max", "min") and len(args) == 1 and args[0].t[0] == "list":
            return self.max_min(name, args[0], st, node)
        if name in ("any", "all") and len(args) == 1 and args[0].t[0] == "list":
            L = args[0]
            i = z3.Int(fresh_name("i"))
            rng = z3.And(0 <= i, i < e.list_len(L))
            c = e.truth(Val(L.t[1], z3.Select(e.list_at(L), i)))
            return [(st, Val(BOOL, z3.Exists([i], z3.And(rng, c)) if name == "any" else z3.ForAll([i], z3.Implies(rng, c))))]
        if name in ("max", "min") and len(args) == 1 and args[0].t[0] in ("gen",):
            raise Unsupported("max over a generator", node, e.path)
        if name == "abs" and args[0].t[0] == "int":
            return [(st, Val(INT, z3.If(args[0].z < 0, -args[0].z, args[0].z)))]
        if name == "abs" and args[0].t[0] == "float":
            return [(st, Val(FLOAT, z3.fpAbs(args[0].z)))]
        if name == "abs" and args[0].t == PYVAL:
            # abs() of an arbitrary python value: |int|, |float|; for other objects either TypeError (str, None, ...) or - complex numbers, objects with
            # __abs__ - some non-negative float (a function of the value)
            self.use("abs(x): |x| for ints and floats; for other objects TypeError, or a non-negative float when the object defines __abs__ (complex numbers)")
            v = args[0]
            PV = e.S.sort(PYVAL)
            has_abs = z3.Function("pv_has_abs", PV, z3.BoolSort())(v.z)
            mag = z3.Function("pv_abs_other", PV, e.S.Float)(v.z)
            out = []
            for s2, isint in e.split(st, self.pv_kind(v.z) == 0):
                if isint:
                    r = e.fresh(PYVAL, "abs")
                    iz = self.pv_int(v.z)
                    s2.assume(z3.And(self.pv_kind(r.z) == 0, self.pv_int(r.z) == z3.If(iz < 0, -iz, iz)))
                    out.append((s2, r))
                    continue
                for s3, isfl in e.split(s2, self.pv_kind(v.z) == 1):
                    if isfl:
                        out.append((s3, Val(FLOAT, z3.fpAbs(self.pv_float(v.z)))))
                        continue
                    for s4, ok in e.split(s3, has_abs):
                        if ok:
                            s4.assume(z3.And(z3.Not(z3.fpIsNaN(mag)), z3.Not(z3.fpIsNegative(mag))))
                            out.append((s4, Val(FLOAT, mag)))
                        else:
                            out.append((s4, Exc("TypeError", "bad operand type for abs()", node.lineno)))
            return out
        if name == "id":
            return [(st, e.fresh(INT, "id"))]
        if name == "type":
            return [(st, Val(("symcls",), e.dtype_fn(args[0].z)))]
        if name in BUILTIN_EXC_NAMES:
            return [(st, Val(("excval",), None, conc=name))]
        raise Unsupported(f"builtin {name}", node, e.path)

    def max_min(self, name, lst, st, node):
        """trusted fold specification of builtin max/min over a list (CPython's algorithm):
        empty -> ValueError; result is an element; no element compares greater (resp. smaller)."""
        e = self.e
        self.use("builtin max/min over a sequence: ValueError if empty; result r is an element and no element x has x > r (resp. x < r) -- true of CPython's left fold, also in the presence of NaN")
        n, at = e.list_len(lst), e.list_at(lst)
        out = []
        for s, empty in e.split(st, n <= 0):
            if empty:
                out.append((s, Exc("ValueError", f"{name}() arg is an empty sequence", node.lineno)))
                continue
            r = e.fresh(lst.t[1], name)
            j = z3.Int(fresh_name("j"))
            i = z3.Int(fresh_name("i"))
            s.assume(z3.And(0 <= j, j < n, z3.Select(at, j) == r.z) if lst.t[1] != FLOAT else
                     z3.And(0 <= j, j < n, z3.Select(at, j) == r.z))
            if lst.t[1] == FLOAT:
                gt = z3.fpGT if name == "max" else z3.fpLT
                # left fold: r = xs[0]; for x in xs[1:]: if x > r: r = x   => no LATER-or-equal position beats r,
                # and r beats every earlier kept value; exact characterisation:
                #   r = xs[j]; forall i>j: not (xs[i] > r); forall i<j: xs[j] > fold(xs[:j])  (only the first part is needed)
                s.assume(z3.ForAll([i], z3.Implies(z3.And(j < i, i < n), z3.Not(gt(z3.Select(at, i), r.z)))))
                k2 = z3.Int(fresh_name("k"))
                # every earlier element was beaten (transitively) by something not greater-compared than r... keep weak
            else:
                cmp = (lambda a, b: a > b) if name == "max" else (lambda a, b: a < b)
                s.assume(z3.ForAll([i], z3.Implies(z3.And(0 <= i, i < n), z3.Not(cmp(z3.Select(at, i), r.z)))))
            out.append((s, r))
        return out

    def max_min_pyval(self, name, L: Val, st, node):
        """max / min of a list of python values: ValueError if empty; TypeError if two elements cannot be compared (a non-number among two or more);
        otherwise an element of the list whose numeric value bounds all the others (ints and floats compare by value; NaN is excluded by assumption)"""
        e = self.e
        self.use("builtin max/min over python numbers: the result is an element of the list whose value bounds every element (NaN-free); a non-number among >= 2 elements raises TypeError")
        n, at = e.list_len(L), e.list_at(L)
        out = []
        for s, empty in e.split(st, n <= 0):
            if empty:
                out.append((s, Exc("ValueError", f"{name}() arg is an empty sequence", node.lineno)))
                continue
            i = z3.Int(fresh_name("i"))
            other = z3.Exists([i], z3.And(0 <= i, i < n, self.pv_kind(z3.Select(at, i)) == 2))
            for s2, bad in e.split(s, z3.And(n >= 2, other)):
                if bad:
                    out.append((s2, Exc("TypeError", f"'<' not supported between instances", node.lineno)))
                    continue
                r = e.fresh(PYVAL, name)
                j = z3.Int(fresh_name("j"))
                k = z3.Int(fresh_name("k"))
                s2.assume(z3.And(0 <= j, j < n, z3.Select(at, j) == r.z))
                if name == "max":
                    s2.assume(z3.ForAll([k], z3.Implies(z3.And(0 <= k, k < n, self.pv_kind(z3.Select(at, k)) != 2, self.pv_kind(r.z) != 2), self.pv_num(z3.Select(at, k)) <= self.pv_num(r.z))))
                else:
                    s2.assume(z3.ForAll([k], z3.Implies(z3.And(0 <= k, k < n, self.pv_kind(z3.Select(at, k)) != 2, self.pv_kind(r.z) != 2), self.pv_num(z3.Select(at, k)) >= self.pv_num(r.z))))
                out.append((s2, r))
        return out

    def isinstance_z(self, v: Val, cls: Val, st, node):
        e = self.e
        names = []
        if cls.t[0] == "tuple":
            for c in cls.z:
                names.append(c.conc)
        else:
            names.append(cls.conc)
        k = v.t[0]
        res = []
        if cls.t[0] == "symcls":
            if k in ("int", "bool", "float", "str", "none", "list", "set", "dict", "tuple"):
                return z3.BoolVal(False)       # python scalars / containers are never instances of a ctypes class
            if k == "ref":
                return z3.And(v.z != e.S.null, e.dtype_fn(v.z) == cls.z)
        for n in names:
            if n is None:
                raise Unsupported("isinstance with a symbolic class", node, e.path)
            n = n.split(".")[-1]
            if k == "carray":
                res.append(z3.BoolVal(n in ("Array", "object", "Iterable", "Sequence")))
                continue
            if v.t == PYVAL:
                self.use("a python value of unknown type is an int (bool included), a float, or something else")
                if n in ("int",):
                    res.append(self.pv_kind(v.z) == 0)
                elif n == "float":
                    res.append(self.pv_kind(v.z) == 1)
                elif n == "object":
                    res.append(z3.BoolVal(True))
                elif n == "bool":
                    res.append(z3.And(self.pv_kind(v.z) == 0, z3.Function("pv_isbool", e.S.sort(PYVAL), z3.BoolSort())(v.z)))
                else:
                    res.append(z3.And(self.pv_kind(v.z) == 2, z3.Function("pv_isa_" + re.sub(r"\W", "_", n), e.S.sort(PYVAL), z3.BoolSort())(v.z)))
                continue
            if k == "int":
                res.append(z3.BoolVal(n in ("int", "object")))
            elif k == "bool":
                res.append(z3.BoolVal(n in ("int", "bool", "object")))
            elif k == "float":
                res.append(z3.BoolVal(n in ("float", "object")))
            elif k == "str":
                res.append(z3.BoolVal(n in ("str", "object")))
            elif k == "none":
                res.append(z3.BoolVal(False))
            elif k in ("list", "set", "dict", "tuple"):
                res.append(z3.BoolVal(n in (k, "object", "Iterable", "Sequence") ))
            elif k == "ref":
                static = v.t[1]
                if e.is_subclass(static, n):
                    res.append(v.z != e.S.null)
                else:
                    subs = [c for c in e.subclasses_of(n) if e.is_subclass(c, static) or e.is_subclass(static, c)]
                    if not subs:
                        res.append(z3.BoolVal(False))
                    else:
                        res.append(z3.Or(*[e.dtype_fn(v.z) == e.class_id(c) for c in subs]))
            else:
                raise Unsupported(f"isinstance on {tstr(v.t)}", node, e.path)
        return z3.Or(*res) if len(res) > 1 else res[0]

    def reflect(self, name, args, st, node):
        e = self.e
        obj, an = args[0], args[1]
        if an.conc is None and an.t[0] == "str" and obj.t[0] == "ref" and name in ("getattr", "setattr"):
            # attribute chosen at run time (descriptor storage): one ghost map per value kind, keyed by (object, name)
            self.use("getattr/setattr with a computed name: a per-object map from names to values (descriptor backing storage)")
            if name == "setattr":
                v = args[2]
                kind = {"int": "int", "bool": "int", "float": "float", "str": "str"}.get(v.t[0])
                if kind is None:
                    raise Unsupported(f"setattr of a {tstr(v.t)} under a computed name", node, e.path)
                ty = {"int": INT, "float": FLOAT, "str": STR}[kind]
                mt = ("map", STR, ty)
                arr = e.heap_arr(st, "$dyn", kind, mt)
                cur = z3.Select(arr, obj.z)
                st.heap[("$dyn", kind)] = z3.Store(arr, obj.z, z3.Store(cur, an.z, e.coerce(v, ty, node).z))
                if st.written is not None:
                    st.written.add(("heap", "$dyn", kind, obj.z))
                return [(st, e.const_val(None))]
            cm = getattr(e.contract, "ctype_model", None) if e.contract is not None else None
            if cm == "string":
                # raw ctypes char array behind a String descriptor: its bytes up to the first NUL, viewed as a latin-1 string
                self.use("ctypes: reading a c_char array field yields its bytes up to the first NUL")
                arr = e.heap_arr(st, "$dyn", "str", ("map", STR, STR))
                raw = z3.Select(z3.Select(arr, obj.z), an.z)
                return [(st, Val(("dynbytes",), raw))]
            raise Unsupported("getattr under a computed name (type unknown)", node, e.path)
        if an.conc is None:
            raise Unsupported(f"{name} with a symbolic attribute name", node, e.path)
        attr = an.conc
        private = False
        if obj.t[0] == "ref" and attr.startswith("_") and not getattr(self, "_reflect_cast", False):
            # '_name' may be the raw field of a descriptor declared only on a subclass of the static class (e.g. TimeCodeMessageHeader._utc_seconds)
            static = obj.t[1]
            if e.class_decl(static) is not None and not e.field_decl(static, attr[1:]) and not e.field_decl(static, attr):
                subs = [c for c in sorted(e.subclasses_of(static)) if c != static and e.class_decl(c) is not None and e.field_decl(c, attr[1:])]
                if subs:
                    outs = []
                    rest = st.fork()
                    for c in subs:
                        cond = e.dtype_fn(obj.z) == e.class_id(c)
                        rest.assume(z3.Not(cond))
                        if e.feasible(st, cond):
                            s2 = st.fork()
                            s2.assume(cond)
                            self._reflect_cast = True
                            try:
                                outs.extend(self.reflect(name, [Val(ref(c), obj.z, origin=obj.origin)] + list(args[1:]), s2, node))
                            finally:
                                self._reflect_cast = False
                    if e.feasible(rest):
                        if name == "setattr":
                            self.use("setattr of a name that is not a field of the ctypes structure creates a plain instance attribute: no field changes")
                            outs.append((rest, e.const_val(None)))
                        elif name == "getattr":
                            outs.append((rest, Exc("AttributeError", f"{static}.{attr}", getattr(node, "lineno", 0))))
                        else:
                            outs.append((rest, Val(BOOL, z3.BoolVal(False))))
                    return outs
        if obj.t[0] == "ref":
            d = e.class_decl(obj.t[1])
            if attr.startswith("_") and d is not None and e.field_decl(obj.t[1], attr[1:]) and not e.field_decl(obj.t[1], attr):
                attr, private = attr[1:], True     # '_name' is the raw ctypes field behind descriptor 'name'
        if name == "getattr":
            if private:
                # raw ctypes read: bytes for char arrays, numbers otherwise
                fd = e.field_decl(obj.t[1], attr)
                kind = fd[2].cfields[attr][0] if getattr(fd[2], "ctypes", False) else None
                if kind in ("string", "char"):
                    return [(st, Val(("rawbytes", attr), (obj,)))]
                return [(st, e.load_field(st, obj, attr, node))]
            return e.get_attr(obj, attr, st, node)
        if name == "setattr":
            val = args[2]
            if (not private and obj.t[0] == "ref" and getattr(e.class_decl(obj.t[1]), "cinfo", None) and not e.field_decl(obj.t[1], attr)
                    and not any(e.field_decl(c, attr) or e.field_decl(c, attr.lstrip("_")) for c in e.subclasses_of(obj.t[1]))):
                self.use("setattr of a name that is not a field of the ctypes structure creates a plain instance attribute: no field changes")
                return [(st, e.const_val(None))]
            if private:
                fd = e.field_decl(obj.t[1], attr)
                kind, meta = fd[2].cfields[attr]
                if val.t[0] == "rawbytes":
                    # copy of a raw char array between identical fields
                    src_obj = val.z[0]
                    sv = e.load_field(st, src_obj, val.t[1], node)
                    e.store_field(st, obj, attr, sv, node)
                    sfd = e.field_decl(src_obj.t[1], val.t[1])
                    sc, sf = e.hkey(sfd[0], val.t[1], sfd[2])
                    tc, tf = e.hkey(fd[0], attr, fd[2])
                    okarr_s = e.heap_arr(st, sc, sf + "$ascii", BOOL)
                    okarr = e.heap_arr(st, tc, tf + "$ascii", BOOL)
                    st.heap[(tc, tf + "$ascii")] = z3.Store(okarr, obj.z, z3.Select(okarr_s, src_obj.z))
                    return [(st, e.const_val(None))]
                if kind == "int":
                    self.use("ctypes: raw c_intN field store wraps modulo 2^N")
                    z = e.coerce(val, INT, node).z
                    e.store_field(st, obj, attr, Val(INT, self.wrap(z, meta)), node)
                    return [(st, e.const_val(None))]
                if kind in ("float", "double"):
                    z = e.coerce(val, FLOAT, node).z
                    if kind == "float":
                        z = z3.fpToFP(z3.RNE(), z3.fpToFP(z3.RNE(), z, z3.Float32()), e.S.Float)
                    e.store_field(st, obj, attr, Val(FLOAT, z), node)
                    return [(st, e.const_val(None))]
                raise Unsupported(f"raw setattr on {kind} field", node, e.path)
            outs = []
            for s, r in self.field_set(obj, attr, val, st, node):
                outs.append((s, r if isinstance(r, Exc) else e.const_val(None)))
            return outs
        if name == "hasattr":
            if obj.t[0] == "ref":
                has = e.field_decl(obj.t[1], attr) is not None or e.find_member(obj.t[1], attr) is not None
                return [(st, e.const_val(bool(has)))]
        raise Unsupported(f"{name} on {tstr(obj.t)}", node, e.path)

    def to_list(self, v: Val, st, node):
        e = self.e
        k = v.t[0]
        if k == "list":
            return [(st, Val(v.t, v.z))]
        if k == "set":
            return [(st, self.enumerate_set(st, v.z, v.t[1]))]
        if k == "chain":
            # list(chain(S1, S2, ...)): the elements of each set exactly once, part after part
            self.use("list(chain(sets...)): each set is enumerated exactly once, one part after the other")
            parts = list(v.z)
            if not all(p.t[0] == "set" for p in parts):
                raise Unsupported("chain over non-set iterables", node, e.path)
            et = parts[0].t[1]
            es = e.sort(et)
            L = e.fresh(("list", et), "chain")
            n, at = e.list_len(L), e.list_at(L)
            bounds = [z3.Int(fresh_name("cut")) for _ in range(len(parts) + 1)]
            st.assume(bounds[0] == 0)
            st.assume(bounds[-1] == n)
            info = []
            for pi, p in enumerate(parts):
                lo, hi = bounds[pi], bounds[pi + 1]
                st.assume(lo <= hi)
                idx = z3.Function(fresh_name(f"pos{pi}"), es, z3.IntSort())
                i = z3.Int(fresh_name("i"))
                x = z3.Const(fresh_name("x"), es)
                st.assume(z3.ForAll([i], z3.Implies(z3.And(lo <= i, i < hi),
                                                    z3.And(z3.Select(p.z, z3.Select(at, i)), idx(z3.Select(at, i)) == i)),
                                    patterns=[z3.Select(at, i)]))
                st.assume(z3.ForAll([x], z3.Implies(z3.Select(p.z, x), z3.And(lo <= idx(x), idx(x) < hi, z3.Select(at, idx(x)) == x)),
                                    patterns=[z3.Select(p.z, x), idx(x)]))
                info.append((p.z, idx, lo, hi))
            L.origin = ("enumparts", info)
            return [(st, L)]
        if k == "dictview":
            kind, d = v.z
            dt = e.sort(d.t)
            keys = self.enumerate_set(st, dt.dom(d.z), d.t[1], "keys")
            if kind == "keys":
                return [(st, keys)]
            i = z3.Int(fresh_name("i"))
            if kind == "values":
                at = z3.Lambda([i], z3.Select(dt.val(d.z), z3.Select(e.list_at(keys), i)))
                return [(st, e.mk_list(("list", d.t[2]), e.list_len(keys), at))]
            if kind == "items":
                return [(st, Val(("itemlist",), (keys, d)))]
        if k == "carray":
            return [(st, e.mk_list(("list", v.t[1]), z3.IntVal(v.t[2]), v.z))]
        if k == "range":
            lo, hi, step = v.z
            if step.conc != 1:
                raise Unsupported("list(range) with step", node, e.path)
            i = z3.Int(fresh_name("i"))
            n = z3.If(hi.z > lo.z, hi.z - lo.z, z3.IntVal(0))
            return [(st, e.mk_list(("list", INT), n, z3.Lambda([i], i + lo.z)))]
        raise Unsupported(f"list({tstr(v.t)})", node, e.path)

    # ================================================================== stdlib functions
    def call_modattr(self, name, args, kwargs, st, node):
        e = self.e
        con = e.reg.find_contract(name)
        if con is not None:
            return e.apply_contract(con, None, args, kwargs, st, node, None)
        if name.endswith(".keys") and not args:
            # keys() of a module-level dict literal with constant string keys (e.g. supported_types): the finite set of those strings
            mn, an = name[:-5].rsplit(".", 1)
            m = e.src.modules.get(mn)
            node0 = m.assigns.get(an) if m else None
            if isinstance(node0, ast.Dict) and node0.keys and all(isinstance(kx, ast.Constant) and isinstance(kx.value, str) for kx in node0.keys):
                x = z3.Const(fresh_name("k"), e.sort(STR))
                self.use(f"module-level table {an}: its key set is the set of string literals written in the source")
                return [(st, Val(("set", STR), z3.Lambda([x], z3.Or([x == e.const_val(kx.value).z for kx in node0.keys]))))]
        if name in ("time.perf_counter", "time.time", "time.monotonic"):
            self.use("time.perf_counter()/time.time(): an arbitrary finite double")
            v = e.fresh(FLOAT, "t")
            st.assume(z3.Not(z3.fpIsNaN(v.z)))
            st.assume(z3.Not(z3.fpIsInf(v.z)))
            return [(st, v)]
        if name == "warnings.warn":
            return [(st, e.const_val(None))]
        if name == "time.sleep":
            return [(st, e.const_val(None))]
        if name == "itertools.chain":
            return [(st, Val(("chain",), tuple(args)))]
        if name == "random.shuffle":
            self.use("random.shuffle(l): l becomes an arbitrary permutation of itself (this is the service-order quantifier)")
            lst = args[0]
            L = e.fresh(lst.t, "shuffled")
            n = e.list_len(lst)
            perm = z3.Function(fresh_name("perm"), z3.IntSort(), z3.IntSort())
            inv = z3.Function(fresh_name("perminv"), z3.IntSort(), z3.IntSort())
            i = z3.Int(fresh_name("i"))
            st.assume(e.list_len(L) == n)
            st.assume(z3.ForAll([i], z3.Implies(z3.And(0 <= i, i < n), z3.And(0 <= perm(i), perm(i) < n, inv(perm(i)) == i,
                                                                     z3.Select(e.list_at(L), i) == z3.Select(e.list_at(lst), perm(i))))))
            st.assume(z3.ForAll([i], z3.Implies(z3.And(0 <= i, i < n), z3.And(0 <= inv(i), inv(i) < n, perm(inv(i)) == i))))
            outs = e.assign_lvalue(node.args[0], L, st, raw=True)
            return [(s, oc[1] if oc[0] == "raise" else e.const_val(None)) for s, oc in outs]
        if name == "ctypes.sizeof":
            v = args[0]
            self.use("ctypes.sizeof(C) == C.type_size for the generated classes (ground fact checked against the real classes in the thorough tier)")
            if v.t[0] == "ref":
                d = e.class_decl(v.t[1])
                if d is not None and getattr(d, "cinfo", None) and len(e.subclasses_of(v.t[1])) > 1:
                    return [(st, Val(INT, self.sizeof_cls(e.dtype_fn(v.z))))]
                if d is not None and getattr(d, "cinfo", None) and "type_size" in d.cinfo["classvars"]:
                    return [(st, e.const_val(d.cinfo["classvars"]["type_size"]))]
                if d is not None and getattr(d, "cinfo", None) and d.cinfo["fields"]:
                    return [(st, Val(INT, self.sizeof_cls(e.dtype_fn(v.z))))]
            if v.t[0] == "cls":
                d = e.class_decl(v.conc)
                if d is not None and getattr(d, "cinfo", None):
                    if "type_size" in d.cinfo["classvars"]:
                        return [(st, e.const_val(d.cinfo["classvars"]["type_size"]))]
                    return [(st, e.const_val(e.src.ctypes_layout(v.conc)[0]))]
            if v.t[0] == "symcls":
                return [(st, Val(INT, self.sizeof_cls(v.z)))]
            if v.t[0] == "elemctype":
                return [(st, Val(INT, v.z))]
            raise Unsupported(f"ctypes.sizeof({tstr(v.t)})", node, e.path)
        if name == "os.getpid":
            v = e.fresh(INT, "pid")
            st.assume(z3.And(v.z > 0, v.z < 2 ** 31))
            return [(st, v)]
        if name == "math.isinf" and args[0].t[0] == "float":
            return [(st, Val(BOOL, z3.fpIsInf(args[0].z)))]
        if name == "math.isnan" and args[0].t[0] == "float":
            return [(st, Val(BOOL, z3.fpIsNaN(args[0].z)))]
        if name == "socket.getprotobyname":
            return [(st, e.const_val(6))]
        if name.startswith("socket.") and name.split(".")[1].isupper():
            return [(st, e.fresh(INT, "const"))]
        raise Unsupported(f"library function {name}", node, e.path)

    # ================================================================== constructors
    def instantiate(self, cname, args, kwargs, st, node):
        e = self.e
        if e.is_subclass(cname, "BaseException") or cname in BUILTIN_EXC_NAMES or e.is_subclass(cname, "Exception"):
            return [(st, Val(("excval",), None, conc=cname))]
        con = e.reg.find_contract(f"{cname}.__init__")
        d = e.class_decl(cname)
        if d is not None and getattr(d, "ctypes", False):
            if args or kwargs:
                raise Unsupported(f"{cname}(...) with arguments", node, e.path)
            self.use("ctypes.Structure(): a fresh zero-initialised instance")
            obj = e.new_object(st, cname, cname.lower()[:12])
            self.zero_init(st, obj, cname)
            if "type_size" in d.cinfo["classvars"]:
                st.assume(self.nbytes(obj.z) == d.cinfo["classvars"]["type_size"])
            return [(st, obj)]
        if d is not None and getattr(d, "dataclass", False):
            return self.dataclass_init(cname, d, args, kwargs, st, node)
        if con is not None:
            obj = e.new_object(st, cname, cname.lower()[:12])
            fm = e.src.find_method(cname, "__init__")
            return [(s, r if isinstance(r, Exc) else obj) for s, r in e.apply_contract(con, obj, args, kwargs, st, node, fm)]
        if f"{cname}.__init__" in e.reg.inline:
            obj = e.new_object(st, cname, cname.lower()[:12])
            fm = e.src.find_method(cname, "__init__")
            return [(s, r if isinstance(r, Exc) else obj) for s, r in e.inline_call(fm, obj, args, kwargs, st, node)]
        raise Unsupported(f"constructor {cname}(...)", node, e.path)

    def zero_init(self, st, obj: Val, cname):
        e = self.e
        d = e.class_decl(cname)
        for f, t in d.fields.items():
            kind, meta = d.cfields[f]
            if kind in ("struct",):
                sub = e.new_object(st, meta["cls"], f)
                self.zero_init(st, sub, meta["cls"])
                e.store_field(st, obj, f, sub)
            elif kind == "structarray":
                arr = e.fresh(t, f)
                e.store_field(st, obj, f, arr)
            else:
                e.store_field(st, obj, f, Val(t, e.default_z(t)))
                if kind in ("string", "char"):
                    fd0 = e.field_decl(cname, f)
                    hc, hf = e.hkey(fd0[0], f, fd0[2])
                    okarr = e.heap_arr(st, hc, hf + "$ascii", BOOL)
                    st.heap[(hc, hf + "$ascii")] = z3.Store(okarr, obj.z, True)
        st.assume(self.isascii(z3.StringVal("")))

    def dataclass_init(self, cname, d, args, kwargs, st, node):
        e = self.e
        ent = e.src.find_class(cname)
        m = e.src.modules[ent[0]]
        names, defaults = [], {}
        for stt in ent[1].body:
            if isinstance(stt, ast.AnnAssign) and isinstance(stt.target, ast.Name):
                names.append(stt.target.id)
                if stt.value is not None:
                    defaults[stt.target.id] = stt.value
        if len(args) > len(names):
            raise Unsupported(f"too many arguments for dataclass {cname}", node, e.path)
        vals = dict(zip(names, args))
        for k, v in kwargs.items():
            if k not in names or k in vals:
                raise Unsupported(f"bad keyword {k} for dataclass {cname}", node, e.path)
            vals[k] = v
        obj = e.new_object(st, cname, cname.lower())
        for n in names:
            t = d.field_type(n)
            if t is None:
                fd_ = e._field_decl(cname, n)        # declared on a base class of the sidecar's class model
                t = fd_[1] if fd_ is not None else None
            if t is None:
                raise Unsupported(f"dataclass field {cname}.{n} not declared in the class model", node, e.path)
            if n in vals:
                v = vals[n]
            elif n in defaults:
                dv = defaults[n]
                if isinstance(dv, ast.Call) and isinstance(dv.func, ast.Name) and dv.func.id == "field":
                    v = Val(t, e.default_z(t))
                else:
                    v = e.const_val(e.src.eval_const(m, dv))
            else:
                raise Unsupported(f"missing argument {n} for {cname}", node, e.path)
            for s, r in self.field_set(obj, n, v, st, node, raw=True):
                pass
        for cl in getattr(d, "init_assume", []):
            sp = st.fork()
            sp.frames = [{"self": obj}]
            st.assume(e.truth(e.sv(ast.parse(cl, mode="eval").body, sp)))
        for g, t in d.ghost.items():
            init = getattr(d, "ghost_init", {}).get(g)
            if init is not None:
                e.store_field(st, obj, g, e.coerce(e.const_val(init), t))
        return [(st, obj)]

    def instantiate_symbolic(self, fv, args, kwargs, st, node):
        """call of a class held in a variable (self.header_cls()): the static class is the declared
        upper bound; the dynamic class is the symbolic one"""
        e = self.e
        cm = getattr(e.contract, "ctype_model", None) if e.contract is not None else None
        if cm in ("float32", "float64") and fv.conc is None and len(args) == 1:
            # self._ctype(value) for the float validators: ctypes.c_float / c_double conversion
            self.use("ctypes.c_float(x) / c_double(x): TypeError unless x is int or float; .value is x rounded to the type (RNE); huge ints (OverflowError) excluded by precondition")
            v = args[0]
            if v.t == PYVAL:
                out = []
                for s2, num in e.split(st, self.pv_kind(v.z) != 2):
                    if not num:
                        out.append((s2, Exc("TypeError", "ctypes float conversion of a non-number", getattr(node, "lineno", 0))))
                        continue
                    f = z3.If(self.pv_kind(v.z) == 0, z3.fpToFP(z3.RNE(), z3.ToReal(self.pv_int(v.z)), e.S.Float), self.pv_float(v.z))
                    if cm == "float32":
                        f = z3.fpToFP(z3.RNE(), z3.fpToFP(z3.RNE(), f, z3.Float32()), e.S.Float)
                    # IEEE-754 fact spared to the solver: an integer of magnitude <= 2^100 converts to a finite binary32 / binary64 value (2^100 < FLT_MAX)
                    iz = self.pv_int(v.z)
                    s2.assume(z3.Implies(z3.And(self.pv_kind(v.z) == 0, -(2 ** 100) <= iz, iz <= 2 ** 100), z3.And(z3.Not(z3.fpIsInf(f)), z3.Not(z3.fpIsNaN(f)))))
                    box = e.new_object(s2, "CFloatBox", "cbox")
                    e.store_field(s2, box, "value", Val(FLOAT, f))
                    out.append((s2, box))
                return out
            if v.t[0] not in ("int", "bool", "float"):
                return [(st, Exc("TypeError", "ctypes float conversion of a non-number", getattr(node, "lineno", 0)))]
            f = e.coerce(v, FLOAT).z
            if cm == "float32":
                f = z3.fpToFP(z3.RNE(), z3.fpToFP(z3.RNE(), f, z3.Float32()), e.S.Float)
            box = e.new_object(st, "CFloatBox", "cbox")
            e.store_field(st, box, "value", Val(FLOAT, f))
            return [(st, box)]
        bound = fv.conc or e.opts.get("symcls_bound", "MessageHeader")
        obj = e.new_object(st, bound, "hdr")
        st.pc.pop()    # drop the exact dtype fact added by new_object
        st.assume(e.dtype_fn(obj.z) == fv.z)
        self.zero_init(st, obj, bound)
        st.assume(self.nbytes(obj.z) == self.sizeof_cls(fv.z))
        return [(st, obj)]

    def from_buffer(self, cname, src: Val, st, node, copy=False, symcls=None):
        """C.from_buffer(x): a view of the same bytes as class C.  Fields of C that coincide in
        (offset, size, kind) with fields of x's class are linked; everything else is unconstrained."""
        e = self.e
        self.use("ctypes from_buffer: reinterprets the same bytes; fields with identical offset/size/kind read the same value")
        if src.t[0] != "ref":
            raise Unsupported(f"from_buffer({tstr(src.t)})", node, e.path)
        if src.t[1] == "Buffer":
            # a receive buffer of the manager: the object currently viewing it (one object per read)
            self.use("from_buffer(receive buffer): the header / payload object of the frame read last (fresh object per read, arbitrary field values within their C types)")
            owner = e.load_field(st, src, "owner")
            role = e.load_field(st, src, "role")
            out = []
            for s2, is_hdr in e.split(st, role.z == 1):
                if is_hdr:
                    o = e.load_field(s2, Val(ref("MessageManager"), owner.z), "hdr_obj")
                    out.append((s2, Val(ref(cname or "MessageHeader"), o.z)))
                else:
                    o = e.load_field(s2, Val(ref("MessageManager"), owner.z), "data_obj")
                    if cname is None:
                        raise Unsupported("symbolic payload class", node, e.path)
                    s2.assume(e.dtype_fn(o.z) == e.class_id(cname))
                    e.classvar_facts(s2, cname)
                    out.append((s2, Val(ref(cname), o.z)))
            return out
        scls = src.t[1]
        sd, td = e.class_decl(scls), e.class_decl(cname)
        if td is None or not getattr(td, "ctypes", False):
            raise Unsupported(f"from_buffer target {cname}", node, e.path)
        self.use("views created by from_buffer are identified with the object they view (same reference, other static class); scalar fields alias when offset, size and kind coincide, partial overlaps are not modelled")
        return [(st, Val(ref(cname), src.z))]


BUILTIN_EXC_NAMES = {"Exception", "RuntimeError", "ValueError", "TypeError", "KeyError", "IndexError", "OSError",
                     "ConnectionError", "NotImplementedError", "AssertionError", "KeyboardInterrupt", "StopIteration",
                     "AttributeError", "ConnectionResetError", "BrokenPipeError", "TimeoutError", "ZeroDivisionError",
                     "OverflowError", "UnicodeDecodeError", "UnicodeEncodeError", "LookupError", "ArithmeticError", "RecursionError", "FileNotFoundError"}
