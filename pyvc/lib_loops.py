"""pyvc.lib_loops -- for loops over the iterable kinds, with-statements (generator context
managers are split at their yield), comprehensions."""
from __future__ import annotations
import ast, copy
import z3
from .core import *
from .engine import Unsupported
from .spec import LoopSpec

NORMAL = ("normal",)


class WithBody(ast.stmt):
    _fields = ("body", "optional_vars", "value")


class LibLoops:
    # ================================================================== for
    def for_loop(self, node: ast.For, st: State, spec: LoopSpec, ordinal: int):
        e = self.e
        out = []
        for s, itv in e.ev(node.iter, st):
            if isinstance(itv, Exc):
                out.append((s, ("raise", itv)))
                continue
            out.extend(self.for_over(node, itv, s, spec, ordinal))
        return out

    def is_path(self, expr) -> bool:
        while isinstance(expr, ast.Attribute):
            expr = expr.value
        return isinstance(expr, ast.Name)

    def for_over(self, node, itv: Val, st: State, spec, ordinal):
        e = self.e
        k = itv.t[0]
        # concrete sequences are unrolled
        if k in ("conclist", "tuple"):
            return self.unrolled(node, list(itv.z), st)
        start = None
        inner_expr = node.iter
        if k == "enumerate":
            inner, start = itv.z
            itv, k = inner, inner.t[0]
            inner_expr = node.iter.args[0] if isinstance(node.iter, ast.Call) and node.iter.args else None
        if k == "dict":
            itv = Val(("dictview",), ("keys", itv))
            k = "dictview"
        idxn, seqn, donen = spec.idx, spec.seq, spec.done
        mutation_check = None
        live_expr = None
        if k == "range":
            lo, hi, step = itv.z
            if step.conc != 1:
                raise Unsupported("for over range with step != 1", node, e.path)
            n0 = z3.If(hi.z > lo.z, hi.z - lo.z, z3.IntVal(0))
            length = lambda s: n0
            item = lambda s, kk: Val(INT, lo.z + kk)
            snapshot = True
            seqval = None
        elif k == "list":
            if inner_expr is not None and self.is_path(inner_expr) and k != "enumerate":
                live_expr = inner_expr
                def cur(s):
                    return e.sv(live_expr, s)
                length = lambda s: e.list_len(cur(s))
                item = lambda s, kk: Val(itv.t[1], z3.Select(e.list_at(cur(s)), kk))
                snapshot = False
                seqval = None
                self.use("list iteration is index-based against the live length (CPython list iterator)")
            else:
                length = lambda s: e.list_len(itv)
                item = lambda s, kk: Val(itv.t[1], z3.Select(e.list_at(itv), kk))
                snapshot = True
                seqval = itv
        elif k in ("set", "dictview"):
            if k == "set":
                setz, et = itv.z, itv.t[1]
                view = None
            else:
                view, d = itv.z
                if d.t[3] == "default":
                    raise Unsupported("iteration over a defaultdict", node, e.path)
                setz, et = e.sort(d.t).dom(d.z), d.t[1]
            L = self.enumerate_set(st, setz, et, "it")
            seqval = L
            length = lambda s: e.list_len(L)
            if k == "set" or view == "keys":
                item = lambda s, kk: Val(et, z3.Select(e.list_at(L), kk))
            elif view == "values":
                item = lambda s, kk: Val(d.t[2], z3.Select(e.sort(d.t).val(d.z), z3.Select(e.list_at(L), kk)))
            else:
                def item(s, kk):
                    key = z3.Select(e.list_at(L), kk)
                    return Val(("tuple", et, d.t[2]), (Val(et, key), Val(d.t[2], z3.Select(e.sort(d.t).val(d.z), key))))
            snapshot = True
            src_expr = inner_expr
            if k == "dictview" and isinstance(src_expr, ast.Call) and isinstance(src_expr.func, ast.Attribute):
                src_expr = src_expr.func.value
            if src_expr is not None and self.is_path(src_expr):
                self.use("a set/dict whose key set changes while it is iterated raises RuntimeError at the next step (CPython raises on size change; 'changed at all' is demanded here)")
                def mutation_check(s, _src=src_expr, _setz=setz, _k=k):
                    cur = e.sv(_src, s)
                    curz = cur.z if cur.t[0] == "set" else e.sort(cur.t).dom(cur.z)
                    return curz == _setz
        elif k == "itemlist":
            keysL, d = itv.z
            seqval = keysL
            length = lambda s: e.list_len(keysL)
            def item(s, kk):
                key = z3.Select(e.list_at(keysL), kk)
                return Val(("tuple", d.t[1], d.t[2]), (Val(d.t[1], key), Val(d.t[2], z3.Select(e.sort(d.t).val(d.z), key))))
            snapshot = True
        elif k == "carray":
            length = lambda s: z3.IntVal(itv.t[2])
            item = lambda s, kk: Val(itv.t[1], z3.Select(itv.z, kk))
            snapshot = True
            seqval = None
        else:
            raise Unsupported(f"for over {tstr(itv.t)}", node, e.path)

        def bind_ghosts(s):
            kk = s.locals[idxn].z
            if k == "range" and isinstance(node.target, ast.Name) and start is None:
                # at the loop head the loop variable denotes the next value to be processed
                s.locals[node.target.id] = Val(INT, lo.z + kk)
            if seqval is not None:
                s.locals[seqn] = seqval
                et2 = seqval.t[1]
                x = z3.Const(fresh_name("x"), e.sort(et2))
                if isinstance(seqval.origin, tuple) and seqval.origin[0] == "enum":
                    _, idxf, setz0 = seqval.origin
                    D = z3.Const(fresh_name("done"), z3.ArraySort(e.sort(et2), z3.BoolSort()))
                    s.assume(z3.ForAll([x], z3.Select(D, x) == z3.And(z3.Select(setz0, x), idxf(x) < kk), patterns=[z3.Select(D, x)]))
                    s.locals[donen] = Val(("set", et2), D)
                else:
                    j = z3.Int(fresh_name("j"))
                    s.locals[donen] = Val(("set", et2), z3.Lambda([x], z3.Exists([j], z3.And(0 <= j, j < kk, z3.Select(e.list_at(seqval), j) == x))))

        def head(s):
            kk = s.locals[idxn].z
            s.assume(kk >= 0)
            n = length(s)
            if snapshot:
                s.assume(kk <= n)
            res = []
            for s2, enter in e.split(s, kk < n):
                if not enter:
                    res.append((s2, "exit"))
                    continue
                it = item(s2, kk)
                if start is not None:
                    it = Val(("tuple", INT, it.t), (Val(INT, e.coerce(start, INT).z + kk), it))
                for s3, oc in e.assign_lvalue(node.target, it, s2):
                    res.append((s3, "enter") if oc[0] == "normal" else (s3, oc))
            return res

        def step(s):
            res = []
            if mutation_check is not None:
                for s2, same in e.split(s, mutation_check(s)):
                    if same:
                        s2.locals[idxn] = Val(INT, s2.locals[idxn].z + 1)
                        bind_ghosts(s2)
                        res.append((s2, NORMAL))
                    else:
                        res.append((s2, ("raise", Exc("RuntimeError", "container changed size during iteration", node.lineno))))
                return res
            s.locals[idxn] = Val(INT, s.locals[idxn].z + 1)
            bind_ghosts(s)
            return [(s, NORMAL)]

        st.locals[idxn] = Val(INT, z3.IntVal(0))
        bind_ghosts(st)
        names = e.assigned_names(node.body) | {idxn}

        def head_with_ghosts(s):
            bind_ghosts(s)
            return head(s)

        return e.generic_loop(node, st, spec, ordinal, head=head_with_ghosts, body=node.body, step=step, names=names,
                              after_havoc=bind_ghosts)

    def unrolled(self, node, items, st):
        e = self.e
        states = [(st, NORMAL)]
        for it in items:
            nxt = []
            for s, oc in states:
                if oc[0] != "normal":
                    nxt.append((s, oc))
                    continue
                if isinstance(node.target, (ast.Tuple, ast.List)) and any(isinstance(x, ast.Starred) for x in node.target.elts):
                    # for a, b, *_ in ...: bind the leading names
                    lead = [x for x in node.target.elts if not isinstance(x, ast.Starred)]
                    parts = list(it.z)[: len(lead)]
                    ok = [(s, NORMAL)]
                    for t2, pv in zip(lead, parts):
                        ok = [r for (s2, oc2) in ok for r in (e.assign_lvalue(t2, pv, s2) if oc2[0] == "normal" else [(s2, oc2)])]
                    bound = ok
                else:
                    bound = e.assign_lvalue(node.target, it, s)
                for s2, oc2 in bound:
                    if oc2[0] != "normal":
                        nxt.append((s2, oc2))
                        continue
                    for s3, oc3 in e.exec_block(node.body, s2):
                        if oc3[0] in ("normal", "continue"):
                            nxt.append((s3, NORMAL))
                        elif oc3[0] == "break":
                            nxt.append((s3, ("broke",)))
                        else:
                            nxt.append((s3, oc3))
            states = nxt
        out = []
        for s, oc in states:
            if oc[0] == "broke":
                out.append((s, NORMAL))
            elif oc[0] == "normal" and getattr(node, "orelse", None):
                out.extend(e.exec_block(node.orelse, s))
            else:
                out.append((s, oc))
        return out

    # ================================================================== with
    def with_statement(self, item, node, st: State):
        e = self.e
        ctx = item.context_expr
        if not isinstance(ctx, ast.Call):
            raise Unsupported("with on a non-call expression", node, e.path)
        # resolve the callee
        out = []
        f = ctx.func
        if isinstance(f, ast.Attribute):
            results = e.ev(f.value, st)
        else:
            results = [(st, None)]
        for s, recv in results:
            if isinstance(recv, Exc):
                out.append((s, ("raise", recv)))
                continue
            fm = None
            self_val = None
            if recv is None:
                fv = e.lookup_name(f.id, s, f)
                if fv.t[0] == "func":
                    mn, fn = fv.conc.split(":")
                    m = e.src.modules[mn]
                    fm = (m, None, m.functions[fn])
                    qual = fn
            elif recv.t[0] == "ref":
                fm = e.src.find_method(recv.t[1], f.attr)
                self_val = recv
                qual = f"{fm[1]}.{f.attr}" if fm else f.attr
            elif recv.t[0] == "module" and recv.conc in e.src.modules:
                m = e.src.modules[recv.conc]
                if f.attr in m.functions:
                    fm = (m, None, m.functions[f.attr])
                    qual = f.attr
            if fm is None:
                con = e.reg.find_contract(ast.unparse(f))
                raise Unsupported(f"with {ast.unparse(f)}(...): context manager not found in source", node, e.path)
            is_cm = any((isinstance(d, ast.Name) and d.id == "contextmanager") or
                        (isinstance(d, ast.Attribute) and d.attr == "contextmanager") for d in fm[2].decorator_list)
            if not is_cm:
                raise Unsupported(f"with {qual}(...): not a @contextmanager generator", node, e.path)
            con = e.reg.find_contract(qual)
            if con is not None and getattr(con, "cm_enter", None) is not None:
                out.extend(self.with_by_contract(con, self_val, ctx, item, node, s))
                continue
            self.use("contextlib.contextmanager: code before the yield runs on entry; the body's exception is raised at the yield; code after it runs on normal exit")
            for s2, vals in e.ev_seq(list(ctx.args) + [k.value for k in ctx.keywords], s):
                if isinstance(vals, Exc):
                    out.append((s2, ("raise", vals)))
                    continue
                args = vals[: len(ctx.args)]
                kwargs = {k.arg: v for k, v in zip(ctx.keywords, vals[len(ctx.args):])}
                out.extend(self.inline_generator_cm(fm, self_val, args, kwargs, item, node, s2))
        return out

    def inline_generator_cm(self, fm, self_val, args, kwargs, item, node, st):
        e = self.e
        m, cls, fdef = fm
        try:
            if not hasattr(e, "inlined_src"):
                e.inlined_src = set()
            e.inlined_src.add(f"{cls or ''}.{fdef.name}:{m.sha1(fdef)}")
        except Exception:
            pass
        body = copy.deepcopy(fdef.body)
        nyield = [0]

        class Rewriter(ast.NodeTransformer):
            def visit_Expr(self, n):
                if isinstance(n.value, ast.Yield):
                    nyield[0] += 1
                    wb = WithBody(body=node.body, optional_vars=item.optional_vars, value=n.value.value)
                    return ast.copy_location(wb, n)
                return n

            def visit_FunctionDef(self, n):
                return n

        new_body = [Rewriter().visit(b) for b in body]
        if nyield[0] == 0:
            raise Unsupported("context manager generator without a plain `yield` statement", node, e.path)
        env = e.bind_params(fdef, None, self_val, args, kwargs, m, node)
        env["__module__"] = m
        st.frames.append(env)
        results = []
        for s, oc in e.exec_block(new_body, st):
            s.frames.pop()
            pend = s.marks.pop("__pending__", None) if "__pending__" in s.marks else None
            if oc[0] in ("normal", "return"):
                results.append((s, pend if pend is not None else NORMAL))
            elif oc[0] == "raise":
                results.append((s, oc))
            else:
                raise Unsupported(f"{oc[0]} escaping a context manager generator", node, e.path)
        return results

    # ================================================================== comprehensions
    def comprehension(self, node, st, kind):
        e = self.e
        if len(node.generators) != 1:
            raise Unsupported("comprehension with several generators", node, e.path)
        g = node.generators[0]
        if g.ifs:
            return self.filtered_comprehension(node, st, kind)
        out = []
        for s, itv in e.ev(g.iter, st):
            if isinstance(itv, Exc):
                out.append((s, itv))
                continue
            for s2, L in self.to_list(itv, s, node) if itv.t[0] != "list" else [(s, itv)]:
                i = z3.Int(fresh_name("ci"))
                elem = Val(L.t[1], z3.Select(e.list_at(L), i))
                s3 = s2.fork()
                for s4, oc in e.assign_lvalue(g.target, elem, s3):
                    pass
                v = e.sv(node.elt, s3) if True else None
                at = z3.Lambda([i], v.z)
                R = e.mk_list(("list", v.t), e.list_len(L), at)
                if kind == "set":
                    out.append((s2, self.set_of_list(R, s2)))
                else:
                    out.append((s2, R))
        return out

    def max_min_gen(self, name, gen, call, st):
        """max(e(x) for x in L) over integers: ValueError if L is empty; the result is attained and bounds every e(x)"""
        e = self.e
        g = gen.generators[0]
        out = []
        self.use("builtin max/min over a generator of integers: ValueError if empty; the result is attained by some element and bounds all of them")
        for s, itv in e.ev(g.iter, st):
            if isinstance(itv, Exc):
                out.append((s, itv))
                continue
            for s2, L in (self.to_list(itv, s, call) if itv.t[0] != "list" else [(s, itv)]):
                def elt_at(idx_term, base):
                    s3 = base.fork()
                    for s4, oc in e.assign_lvalue(g.target, Val(L.t[1], z3.Select(e.list_at(L), idx_term)), s3):
                        pass
                    return e.sv(gen.elt, s3)
                n = e.list_len(L)
                for s5, empty in e.split(s2, n <= 0):
                    if empty:
                        out.append((s5, Exc("ValueError", f"{name}() arg is an empty sequence", call.lineno)))
                        continue
                    j = z3.Int(fresh_name("j"))
                    i = z3.Int(fresh_name("i"))
                    ej = elt_at(j, s5)
                    if ej.t[0] not in ("int", "bool"):
                        raise Unsupported(f"{name} over non-integer generator elements", call, e.path)
                    r = e.fresh(INT, name)
                    r.choices = ej.choices
                    s5.assume(z3.And(0 <= j, j < n, e.coerce(ej, INT).z == r.z))
                    ei = e.coerce(elt_at(i, s5), INT).z
                    s5.assume(z3.ForAll([i], z3.Implies(z3.And(0 <= i, i < n), ei <= r.z if name == "max" else ei >= r.z)))
                    if r.choices:
                        s5.assume(z3.Or(*[r.z == c for c in r.choices]))
                    out.append((s5, r))
        return out

    def filtered_comprehension(self, node, st, kind):
        """[x for x in L if cond(x)] with the identity as element expression: a list holding exactly the
        elements of L that satisfy cond (order and multiplicities are abstracted: membership only)"""
        e = self.e
        g = node.generators[0]
        if not (isinstance(node.elt, ast.Name) and isinstance(g.target, ast.Name) and node.elt.id == g.target.id):
            raise Unsupported("filtered comprehension with a non-identity element expression", node, e.path)
        self.use("[x for x in L if c(x)]: a list whose elements are exactly the elements of L satisfying c (membership semantics; order/multiplicity abstracted)")
        out = []
        for s, itv in e.ev(g.iter, st):
            if isinstance(itv, Exc):
                out.append((s, itv))
                continue
            for s2, L in (self.to_list(itv, s, node) if itv.t[0] != "list" else [(s, itv)]):
                et = L.t[1]
                R = e.fresh(("list", et), "filtered")
                def cond_at(term, base_state):
                    s3 = base_state.fork()
                    s3.locals[g.target.id] = Val(et, term)
                    cs = [e.truth(e.sv(c, s3)) for c in g.ifs]
                    return z3.And(*cs) if len(cs) > 1 else cs[0]
                i, j = z3.Int(fresh_name("i")), z3.Int(fresh_name("j"))
                nL, aL, nR, aR = e.list_len(L), e.list_at(L), e.list_len(R), e.list_at(R)
                s2.assume(z3.And(nR >= 0, nR <= nL))
                k1 = z3.Int(fresh_name("k"))
                s2.assume(z3.ForAll([j], z3.Implies(z3.And(0 <= j, j < nR),
                                                    z3.And(cond_at(z3.Select(aR, j), s2), z3.Exists([k1], z3.And(0 <= k1, k1 < nL, z3.Select(aL, k1) == z3.Select(aR, j))))),
                                    patterns=[z3.Select(aR, j)]))
                k2 = z3.Int(fresh_name("k"))
                s2.assume(z3.ForAll([i], z3.Implies(z3.And(0 <= i, i < nL, cond_at(z3.Select(aL, i), s2)),
                                                    z3.Exists([k2], z3.And(0 <= k2, k2 < nR, z3.Select(aR, k2) == z3.Select(aL, i)))),
                                    patterns=[z3.Select(aL, i)]))
                out.append((s2, R if kind != "set" else self.set_of_list(R, s2)))
        return out

    def any_all_pyval(self, name, gen, g, L, st, call):
        """any(f(x) for x in L) / all(...) over python values of unknown type, with CPython's left-to-right evaluation: the element expression is
        evaluated in program mode on a symbolic element; the paths on which it raises TypeError give bad(i), the others its truth value t(i).
        Result: TypeError if some element raises before the iteration has stopped; otherwise the usual truth value."""
        e = self.e
        self.use("any()/all() over a generator evaluate elements left to right and stop at the first decisive one; an exception in an element expression propagates")
        i = z3.Int(fresh_name("qi"))
        n, at = e.list_len(L), e.list_at(L)
        base = st.fork()
        n0 = len(base.pc)
        for s4, oc in e.assign_lvalue(g.target, Val(PYVAL, z3.Select(at, i)), base):
            pass
        saved = e.discovery
        e.discovery += 1          # obligations inside the element expression are not generated per element; raising paths are collected instead
        try:
            outs = e.ev(gen.elt, base)
        finally:
            e.discovery = saved
        def consts_of(t, acc, seen):
            if t.get_id() in seen:
                return
            seen.add(t.get_id())
            if z3.is_const(t) and t.decl().kind() == z3.Z3_OP_UNINTERPRETED:
                acc[t.decl().name()] = t
            elif z3.is_app(t):
                for ch in t.children():
                    consts_of(ch, acc, seen)
            elif z3.is_quantifier(t):
                consts_of(t.body(), acc, seen)
        known, seen0 = {}, set()
        for c in base.pc[:n0]:
            consts_of(c, known, seen0)
        consts_of(at, known, seen0); consts_of(n, known, seen0)
        known[i.decl().name()] = i

        def delta_of(so):
            keep = []
            for c in so.pc[n0:]:
                cs = {}
                consts_of(c, cs, set())
                fresh = [v for k, v in cs.items() if k not in known]
                # facts about objects allocated while evaluating the element (a ctypes box): always satisfiable, not a condition on the element
                if fresh and all(v.sort() == e.S.Ref for v in fresh):
                    continue
                keep.append(c)
            return z3.And(*keep) if keep else z3.BoolVal(True)
        bad_terms, true_terms = [], []
        for so, r in outs:
            delta = delta_of(so)
            if isinstance(r, Exc) and r.cls != "TypeError" and not e.feasible(so):
                continue
            if isinstance(r, Exc):
                if r.cls != "TypeError":
                    raise Unsupported(f"{r.cls} inside a generator over python values", call, e.path)
                bad_terms.append(delta)
            else:
                true_terms.append(z3.And(delta, e.truth(r)))
        if not bad_terms:
            # no element expression can raise: the order of evaluation does not matter
            tr = z3.Or(*true_terms) if true_terms else z3.BoolVal(False)
            rng0 = z3.And(0 <= i, i < n)
            return [(st, Val(BOOL, z3.Exists([i], z3.And(rng0, tr)) if name == "any" else z3.ForAll([i], z3.Implies(rng0, tr))))]
        bad_i = z3.Or(*bad_terms) if bad_terms else z3.BoolVal(False)
        tr_i = z3.Or(*true_terms) if true_terms else z3.BoolVal(False)
        stop_i = tr_i if name == "any" else z3.And(z3.Not(tr_i), z3.Not(bad_i))
        j = z3.Int(fresh_name("qj"))
        sub = lambda t: z3.substitute(t, (i, j))
        quiet_before = z3.ForAll([j], z3.Implies(z3.And(0 <= j, j < i), z3.And(z3.Not(sub(bad_i)), z3.Not(sub(stop_i)))))
        rng = z3.And(0 <= i, i < n)
        raises = z3.Exists([i], z3.And(rng, bad_i, quiet_before))
        stops = z3.Exists([i], z3.And(rng, z3.Not(bad_i), stop_i, quiet_before))
        out = []
        for s5, exc in e.split(st, raises):
            if exc:
                out.append((s5, Exc("TypeError", "raised by an element of the generator", call.lineno)))
            else:
                # least-element principle (integers are well ordered): if no element raises first and none stops the iteration first, then none raises or stops at all
                s5.assume(z3.Or(stops, z3.ForAll([i], z3.Implies(rng, z3.And(z3.Not(bad_i), z3.Not(stop_i))), patterns=[z3.Select(at, i)])))
                out.append((s5, Val(BOOL, stops if name == "any" else z3.Not(stops))))
        return out

    def call_builtin_lazy(self, name, call, st):
        """any(...) / all(...) over a generator expression"""
        e = self.e
        gen = call.args[0]
        if name in ("max", "min") and len(gen.generators) == 1 and not gen.generators[0].ifs and len(call.args) == 1:
            return self.max_min_gen(name, gen, call, st)
        if name not in ("any", "all") or len(gen.generators) != 1 or gen.generators[0].ifs:
            raise Unsupported(f"{name} over a generator expression", call, e.path)
        g = gen.generators[0]
        out = []
        for s, itv in e.ev(g.iter, st):
            if isinstance(itv, Exc):
                out.append((s, itv))
                continue
            for s2, L in (self.to_list(itv, s, call) if itv.t[0] != "list" else [(s, itv)]):
                if L.t[1] == PYVAL and not e.spec_mode:
                    out.extend(self.any_all_pyval(name, gen, g, L, s2, call))
                    continue
                i = z3.Int(fresh_name("qi"))
                s3 = s2.fork()
                elem = Val(L.t[1], z3.Select(e.list_at(L), i))
                for s4, oc in e.assign_lvalue(g.target, elem, s3):
                    pass
                c = e.truth(e.sv(gen.elt, s3))
                rng = z3.And(0 <= i, i < e.list_len(L))
                z = z3.Exists([i], z3.And(rng, c)) if name == "any" else z3.ForAll([i], z3.Implies(rng, c))
                out.append((s2, Val(BOOL, z)))
        return out
