"""pyvc.refute -- finite-scope counter-model search for an obligation that was not discharged.

The function is re-executed with Ref as an EnumSort of k objects; the VC (hyps and not goal) is
skolemised and every remaining universal quantifier is instantiated over a finite set of
ground terms (all k+1 references; the integer terms of the VC), giving a quantifier-free
formula that z3 decides.  A model of the instantiated formula is only a *candidate*: it is
checked against instances at every integer value it mentions (and refined, a few rounds), and
the replay on the real code is the arbiter (DESIGN §2.6).
"""
from __future__ import annotations
import itertools, time
import z3


def _collect_int_terms(fs, limit=40):
    """ground integer-sorted leaf terms (numerals, constants) of the formulas, smallest first"""
    seen, nums, consts = set(), set(), []
    def walk(e, bound_depth=0):
        if e.get_id() in seen:
            return
        seen.add(e.get_id())
        if z3.is_quantifier(e):
            walk(e.body())
            return
        if z3.is_int_value(e):
            nums.add(e.as_long())
            return
        if z3.is_eq(e) and any(z3.is_app(c) and c.decl().name() == "dtype" for c in e.children()):
            return
        if z3.is_const(e) and e.sort() == z3.IntSort() and e.decl().kind() == z3.Z3_OP_UNINTERPRETED:
            consts.append(e)
        for c in e.children():
            walk(c)
    for f in fs:
        walk(f)
    nums = sorted(nums, key=lambda v: (abs(v), v))
    out = [z3.IntVal(v) for v in nums[:limit]]
    seenc = set()
    for c in consts:
        if c.get_id() not in seenc and len(out) < 2 * limit:
            seenc.add(c.get_id())
            out.append(c)
    return out


def _ground_int_reads(fs, limit=60):
    """ground Int-sorted constants and select/function applications (not arithmetic)"""
    seen, out = set(), []
    def has_var(e):
        if z3.is_var(e):
            return True
        return any(has_var(c) for c in e.children())
    def walk(e):
        if e.get_id() in seen:
            return
        seen.add(e.get_id())
        if z3.is_quantifier(e):
            walk(e.body())
            return
        if z3.is_app(e) and e.sort() == z3.IntSort() and not z3.is_int_value(e):
            k = e.decl().kind()
            if k in (z3.Z3_OP_UNINTERPRETED, z3.Z3_OP_SELECT) and e.decl().name() not in ("dtype", "sizeof_cls") and not has_var(e) and len(out) < limit:
                out.append(e)
        for c in e.children():
            walk(c)
    for f in fs:
        walk(f)
    return out


def _instantiate(e, terms_by_sort, cap, cache):
    key = e.get_id()
    if key in cache:
        return cache[key]
    if z3.is_quantifier(e):
        if not e.is_forall():
            r = e       # existentials are gone after skolemisation (nnf); keep anything odd as is
        else:
            n = e.num_vars()
            doms = []
            ok = True
            for i in range(n):
                s = e.var_sort(i)
                ts = terms_by_sort.get(s.sexpr()) if s.kind() != z3.Z3_DATATYPE_SORT or True else None
                if not ts:
                    ok = False
                    break
                doms.append(ts)
            if not ok:
                r = e
            else:
                insts = []
                total = 1
                for d in doms:
                    total *= len(d)
                combos = itertools.product(*doms)
                if total > cap:
                    combos = itertools.islice(combos, cap)
                body = e.body()
                for combo in combos:
                    # de Bruijn: var 0 is the LAST bound variable
                    inst = z3.substitute_vars(body, *reversed(combo))
                    insts.append(_instantiate(inst, terms_by_sort, cap, cache))
                r = z3.And(*insts) if insts else z3.BoolVal(True)
    elif z3.is_app(e) and e.num_args() > 0 and e.sort() == z3.BoolSort() or (z3.is_app(e) and e.num_args() > 0 and _has_q(e)):
        ch = [_instantiate(c, terms_by_sort, cap, cache) for c in e.children()]
        try:
            r = e.decl()(*ch)
        except Exception:
            r = e
    else:
        r = e
    cache[key] = r
    return r


_hq = {}


def _has_q(e):
    k = e.get_id()
    if k in _hq:
        return _hq[k]
    r = z3.is_quantifier(e) or any(_has_q(c) for c in e.children())
    _hq[k] = r
    return r


def find_model(hyps, goal, ref_consts, timeout_ms=15000, rounds=4, cap=400):
    """-> (status, model, info)   status: 'sat' | 'unsat' | 'unknown'"""
    t0 = time.time()
    g = z3.Goal()
    for h in hyps:
        g.add(h)
    g.add(z3.Not(goal))
    try:
        sk = z3.Tactic("nnf")(g)[0]
        fs = [f for f in sk]
    except z3.Z3Exception as ex:
        return "unknown", None, f"nnf failed: {ex}"
    int_terms = _collect_int_terms(fs)
    info = {}
    # small-model restriction: integer constants and integer reads take their value in a finite pool
    pool_vals = [t.as_long() for t in int_terms if z3.is_int_value(t)]
    extra_vals = [v for v in (101, 102, 103, 7001) if v not in pool_vals]
    pool = [z3.IntVal(v) for v in pool_vals + extra_vals]
    ground = _ground_int_reads(fs)
    restrict = [z3.Or(*[g == p for p in pool]) for g in ground]
    int_terms = pool
    for rnd in range(1):
        tbs = {z3.IntSort().sexpr(): int_terms}
        if ref_consts:
            tbs[ref_consts[0].sort().sexpr()] = list(ref_consts)
        cache = {}
        qf = [_instantiate(f, tbs, cap, cache) for f in fs]
        s = z3.Solver()
        s.set("timeout", int(timeout_ms))
        for f in qf:
            s.add(f)
        for c in restrict:
            s.add(c)
        r = s.check()
        info = dict(round=rnd, int_terms=len(int_terms), seconds=round(time.time() - t0, 2), pool=pool_vals + extra_vals)
        if r == z3.unsat:
            return "unsat", None, info
        if r != z3.sat:
            return "unknown", None, dict(info, reason=s.reason_unknown())
        m = s.model()
        # integers the model talks about: values of the candidate terms and of int constants
        vals = set()
        for t in int_terms:
            v = m.eval(t, model_completion=True)
            if z3.is_int_value(v):
                vals.add(v.as_long())
        new_terms = [z3.IntVal(v) for v in sorted(vals)]
        have = {t.as_long() for t in int_terms if z3.is_int_value(t)}
        extra = [t for t in new_terms if t.as_long() not in have]
        # check the hypotheses at the extended term set
        if not extra:
            return "sat", m, info
        tbs2 = {z3.IntSort().sexpr(): int_terms + extra}
        if ref_consts:
            tbs2[ref_consts[0].sort().sexpr()] = list(ref_consts)
        cache2 = {}
        ok = True
        for f in fs:
            inst = _instantiate(f, tbs2, cap, cache2)
            if not z3.is_true(m.eval(inst, model_completion=True)):
                ok = False
                break
        if ok:
            return "sat", m, info
        int_terms = int_terms + extra
    return "unknown", None, dict(info, reason="candidate models kept failing at new instances")


def validate_model(m, hyps, goal, timeout_ms=3000):
    """check a candidate model against the *uninstantiated* hypotheses: every hypothesis, with all
    uninterpreted symbols replaced by their model values, must be valid, and the goal must be false.
    -> (ok: bool, which: str)"""
    fs = list(hyps) + [z3.Not(goal)]
    for i, h in enumerate(fs):
        try:
            e = m.eval(h, model_completion=True)
        except z3.Z3Exception:
            return False, f"eval failed at {i}"
        if z3.is_true(e):
            continue
        if z3.is_false(e):
            return False, f"hyp {i} false in model" if i < len(hyps) else "goal holds in model"
        s = z3.Solver()
        s.set("timeout", timeout_ms)
        s.add(z3.Not(e))
        r = s.check()
        if r == z3.unsat:
            continue
        return False, (f"hyp {i} not valid in model ({r})" if i < len(hyps) else f"goal not refuted ({r})")
    return True, "validated"
