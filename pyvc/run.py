"""pyvc.run -- per-function worker: prove, then try to refute what stays open; witness extraction."""
from __future__ import annotations
import importlib, json, os, re, sys, time, traceback
import z3
from .core import Sorts, Val, tstr
from .source import Source
from .spec import Registry
from .engine import Unsupported
from . import solve, refute

SIDECARS = ["contracts.manager_model", "contracts.manager_contracts"]


def load_registry(modules=None) -> Registry:
    R = Registry()
    for mn in modules or SIDECARS:
        m = importlib.import_module(mn)
        m.install(R)
        for extra in ("install2", "install3", "install4", "install5", "install6", "install7", "install8", "install9", "install10"):
            if hasattr(m, extra):
                getattr(m, extra)(R)
    return R


def _pyval(m, z, pool_ints, ref_consts, depth=0):
    """model value of term z as plain python data"""
    try:
        v = m.eval(z, model_completion=True)
    except z3.Z3Exception:
        return "?"
    s = z.sort()
    k = s.kind()
    if k == z3.Z3_INT_SORT:
        return v.as_long() if z3.is_int_value(v) else str(v)
    if k == z3.Z3_BOOL_SORT:
        return z3.is_true(v)
    if k == z3.Z3_SEQ_SORT:
        try:
            return v.as_string()
        except Exception:
            return str(v)
    if k == z3.Z3_FLOATING_POINT_SORT:
        return str(v)
    if s.name() == "Ref":
        return str(v)
    if k == z3.Z3_ARRAY_SORT and depth < 3:
        dom, rng = s.domain(), s.range()
        cands = list(ref_consts) if dom.name() == "Ref" else [z3.IntVal(i) for i in pool_ints]
        if rng.kind() == z3.Z3_BOOL_SORT:
            return sorted([_pyval(m, c, pool_ints, ref_consts) for c in cands if z3.is_true(m.eval(z3.Select(z, c), model_completion=True))], key=str)
        out = {}
        for c in cands:
            out[str(_pyval(m, c, pool_ints, ref_consts))] = _pyval(m, z3.Select(z, c), pool_ints, ref_consts, depth + 1)
        return out
    if k == z3.Z3_DATATYPE_SORT and depth < 3:
        name = s.name()
        if name.startswith("List_"):
            n = m.eval(s.accessor(0, 0)(z), model_completion=True)
            n = n.as_long() if z3.is_int_value(n) else 0
            at = s.accessor(0, 1)(z)
            return [_pyval(m, z3.Select(at, i), pool_ints, ref_consts, depth + 1) for i in range(max(0, min(n, 8)))]
        if name.startswith("Dict_"):
            domz, valz = s.accessor(0, 0)(z), s.accessor(0, 1)(z)
            ks = domz.sort().domain()
            cands = list(ref_consts) if ks.name() == "Ref" else [z3.IntVal(i) for i in pool_ints]
            out = {}
            for c in cands:
                if z3.is_true(m.eval(z3.Select(domz, c), model_completion=True)):
                    out[str(_pyval(m, c, pool_ints, ref_consts))] = _pyval(m, z3.Select(valz, c), pool_ints, ref_consts, depth + 1)
            return out
    return str(v)


def extract_witness(eng, state, m, pool_ints):
    """abstract pre-state of the function from a counter-model: parameters, dynamic classes, heap"""
    S = eng.S
    refs = list(S.ref_consts)
    ids = {v: k for k, v in eng._class_ids.items()}
    w = {"params": {}, "objects": {}, "globals": {}, "pool": pool_ints}
    pre = state.old if state.old is not None else state
    for n, v in pre.frames[0].items():
        if isinstance(v, Val) and v.z is not None and not n.startswith("__"):
            try:
                w["params"][n] = _pyval(m, v.z, pool_ints, refs)
            except Exception:
                pass
    for r in refs[1:]:
        cid = m.eval(eng.dtype_fn(r), model_completion=True)
        cname = ids.get(cid.as_long() if z3.is_int_value(cid) else -1, "?")
        alloc = z3.is_true(m.eval(z3.Select(pre.alloc, r), model_completion=True))
        w["objects"][str(r)] = {"class": cname, "allocated": alloc, "fields": {}}
    for (c, f), arr in pre.heap.items():
        base = z3.Const(f"H_{c}.{f}", arr.sort())
        for r in refs[1:]:
            o = w["objects"][str(r)]
            if c != "$raw" and not (o["class"] == c or eng.is_subclass(o["class"], c)):
                continue
            if c == "$raw" and not (eng.class_decl(o["class"]) is not None and getattr(eng.class_decl(o["class"]), "ctypes", False)):
                continue
            try:
                o["fields"][f"{c}.{f}"] = _pyval(m, z3.Select(base, r), pool_ints, refs)
            except Exception:
                pass
    for n, v in pre.glob.items():
        if v.z is not None:
            t = eng.reg.globals.get(n)
            try:
                w["globals"][n] = _pyval(m, z3.Const(f"G_{n}", v.z.sort()), pool_ints, refs)
            except Exception:
                pass
    return w


def verify_function(key, sidecars=None, tier="quick", seed=0, scope=None, repo=None):
    """worker entry point (own process).  -> dict with obligations (plain data)"""
    t0 = time.time()
    out = dict(function=key, obligations=[], error=None, unsupported=None, stats={}, assumed=[], calls=[], lib=[])
    try:
        R = load_registry(sidecars)
        src = Source(repo)
        from .verify import Engine
        eng = Engine(src, R, Sorts())
        mod, fdef = src.function(key)
        out["file"] = os.path.relpath(mod.path, src.repo)
        out["span"] = list(mod.span(fdef))
        out["sha1"] = mod.sha1(fdef)
        obs = eng.verify(key)
        budget = 20000 if tier == "quick" else 120000
        guards = [ob for ob in obs if ob.kind == "must_fail"]
        obs = [ob for ob in obs if ob.kind != "must_fail"]
        vac = True
        for gob in guards:
            solve.solve_one(gob, 3000, seed, want_model=False, use_cvc5=False)
            if gob.status != "discharged":
                vac = False
                break
        out["vacuous"] = bool(guards) and vac
        out["must_fail_checked"] = len(guards)
        solve.solve_all(obs, timeout_ms=budget, seed=seed)
        out["stats"] = dict(eng.stats)
        out["assumed"] = sorted(eng.assumed)
        out["calls"] = sorted(eng.calls_used)
        out["lib"] = sorted(eng.lib.used)
        open_bases = sorted({ob.base for ob in obs if ob.status != "discharged"})
        witnesses = {}
        if open_bases:
            k = scope or int(os.environ.get("PYVC_SCOPE", "9" if tier == "quick" else "11"))
            try:
                S2 = Sorts(scope=k)
                eng2 = Engine(src, load_registry(sidecars), S2, opts={"nosplit": True})
                obs2 = eng2.verify(key)
                for base in open_bases:
                    for ob2 in obs2:
                        if ob2.base != base or z3.is_true(ob2.goal):
                            continue
                        r, m, info = refute.find_model(ob2.hyps, ob2.goal, S2.ref_consts, timeout_ms=budget)
                        if r == "sat":
                            okv, why = refute.validate_model(m, ob2.hyps, ob2.goal, 1500)
                            info = dict(info, validation=why)     # informational: the replay is the arbiter
                            st2 = getattr(ob2, "state", None)
                            pool = info.get("pool", [])
                            witnesses.setdefault(base + "#all", []).append(dict(model_found=True, info={k2: v for k2, v in info.items() if k2 != "pool"},
                                                   witness=extract_witness(eng2, eng2.entry_state, m, pool),
                                                   path=[f"L{ln}:{what}" for ln, what in ob2.path]))
                            continue
                            witnesses[base] = dict(model_found=True, info={k2: v for k2, v in info.items() if k2 != "pool"},
                                                   witness=extract_witness(eng2, eng2.entry_state, m, pool),
                                                   path=[f"L{ln}:{what}" for ln, what in ob2.path])
                            break
                        if witnesses.get(base, {}).get("model_found"):
                            break
                        witnesses.setdefault(base, dict(model_found=False, info={k2: v for k2, v in info.items() if k2 != "pool"} if isinstance(info, dict) else str(info)))
            except Unsupported as ex:
                witnesses["__error__"] = str(ex)
            except Exception as ex:
                witnesses["__error__"] = "refute: " + repr(ex) + traceback.format_exc()[-800:]
        for ob in obs:
            d = dict(name=ob.name, base=ob.base, kind=ob.kind, tags=list(ob.tags), status=ob.status, backend=ob.backend,
                     seconds=round(ob.seconds, 3), text=ob.text, lineno=ob.lineno, reason=ob.reason)
            if ob.status != "discharged":
                d["candidates"] = witnesses.get(ob.base + "#all", [])
                d["refute"] = witnesses.get(ob.base) or ({"error": witnesses["__error__"]} if "__error__" in witnesses else None)
                d["path"] = [f"L{ln}:{what}" for ln, what in ob.path]
            out["obligations"].append(d)
    except Unsupported as ex:
        out["unsupported"] = str(ex)
    except Exception as ex:
        out["error"] = repr(ex) + "\n" + traceback.format_exc()
    out["wall_s"] = round(time.time() - t0, 2)
    return out


def refute_function(args):
    """pool task: finite-scope counter-model search for the open obligations of one function"""
    key, bases, sidecars, tier, seed, repo = args
    out = {}
    try:
        from .verify import Engine
        src = Source(repo)
        k = int(os.environ.get("PYVC_SCOPE", "9" if tier == "quick" else "11"))
        budget = 8000 if tier == "quick" else 60000
        S2 = Sorts(scope=k)
        eng2 = Engine(src, load_registry(sidecars), S2, opts={"nosplit": True})
        t_start = time.time()
        wall = float(os.environ.get("PYVC_REFUTE_WALL", "100" if tier == "quick" else "900"))
        obs2 = eng2.verify(key)
        for base in bases:
            out[base] = []
            tried = 0
            if time.time() - t_start > wall:
                out.setdefault("__error__", f"refutation stopped after {wall}s (wall budget)")
                break
            for ob2 in obs2:
                if ob2.base != base or z3.is_true(ob2.goal) or ob2.kind == "must_fail":
                    continue
                tried += 1
                if tried > 6 or len(out[base]) >= 3 or time.time() - t_start > wall:
                    break
                r, m, info = refute.find_model(ob2.hyps, ob2.goal, S2.ref_consts, timeout_ms=budget)
                if r == "sat":
                    pool = info.get("pool", [])
                    out[base].append(dict(info={k2: v for k2, v in info.items() if k2 != "pool"},
                                          witness=extract_witness(eng2, eng2.entry_state, m, pool),
                                          path=[f"L{ln}:{what}" for ln, what in ob2.path]))
    except Unsupported as ex:
        out["__error__"] = str(ex)
    except Exception as ex:
        out["__error__"] = "refute: " + repr(ex) + traceback.format_exc()[-600:]
    return key, out
