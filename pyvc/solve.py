"""pyvc.solve -- discharge obligations: z3 first, cvc5 on what z3 leaves open.

verdicts per obligation instance: discharged | refuted (model) | unknown (incomplete) | timeout
"""
from __future__ import annotations
import subprocess, tempfile, os, time
import z3
from .core import Obligation


def _solver(timeout_ms, seed=0):
    s = z3.Solver()
    s.set("timeout", int(timeout_ms))
    if seed:
        s.set("random_seed", int(seed))
    return s


def solve_one(ob: Obligation, timeout_ms=20000, seed=0, want_model=True, use_cvc5=True):
    if ob.status == "discharged":
        return ob
    t0 = time.time()
    s = _solver(timeout_ms, seed)
    for h in ob.hyps:
        s.add(h)
    s.add(z3.Not(ob.goal))
    r = s.check()
    ob.seconds = time.time() - t0
    if r == z3.unsat:
        ob.status, ob.backend = "discharged", "z3"
        return ob
    if r == z3.sat:
        ob.status, ob.backend = "refuted", "z3"
        if want_model:
            try:
                ob.model = s.model()
            except z3.Z3Exception:
                ob.model = None
        return ob
    reason = s.reason_unknown()
    ob.reason = reason
    if use_cvc5:
        r5 = cvc5_check(s, max(5, timeout_ms // 1000))
        if r5 == "unsat":
            ob.status, ob.backend = "discharged", "cvc5"
            ob.seconds = time.time() - t0
            return ob
    ob.seconds = time.time() - t0
    if "timeout" in reason or "canceled" in reason or "max. resource" in reason:
        ob.status = "timeout"
    else:
        ob.status = "unknown"
        try:
            ob.model = s.model()
        except z3.Z3Exception:
            ob.model = None
    return ob


def cvc5_check(solver: z3.Solver, timeout_s: int) -> str:
    """second opinion on the same SMT-LIB text"""
    exe = "/usr/bin/cvc5"
    if not os.path.exists(exe):
        return "unavailable"
    try:
        text = solver.to_smt2()
    except z3.Z3Exception:
        return "unavailable"
    if "Lambda" in text or "(lambda" in text or "fp." in text and False:
        pass
    text = "(set-logic ALL)\n" + text
    with tempfile.NamedTemporaryFile("w", suffix=".smt2", delete=False, dir=os.environ.get("PYVC_TMP", None)) as f:
        f.write(text)
        path = f.name
    try:
        p = subprocess.run([exe, "--strings-exp", f"--tlimit={timeout_s * 1000}", path], capture_output=True, text=True,
                           timeout=timeout_s + 5)
        out = p.stdout.strip().splitlines()
        return out[0] if out else "error"
    except Exception:
        return "error"
    finally:
        try:
            os.unlink(path)
        except OSError:
            pass


def solve_all(obs, timeout_ms=20000, seed=0, use_cvc5=True, quick_ms=3000):
    """two passes: a short budget for everything, the full budget for what stays open"""
    for ob in obs:
        if ob.status is None:
            solve_one(ob, quick_ms, seed, use_cvc5=False)
    failed_names = set()
    for ob in obs:
        if ob.status in ("timeout", "unknown"):
            if ob.name in failed_names:
                ob.status, ob.reason = "skipped", "another path instance of the same obligation is already open"
                continue
            solve_one(ob, timeout_ms, seed, use_cvc5=use_cvc5)
            if ob.status != "discharged":
                failed_names.add(ob.name)
        elif ob.status == "refuted":
            failed_names.add(ob.name)
    return obs


# ----------------------------------------------------------------------------- process pool
def to_smt2(ob: Obligation) -> str:
    s = z3.Solver()
    for h in ob.hyps:
        s.add(h)
    s.add(z3.Not(ob.goal))
    return s.to_smt2()


def _pool_check(args):
    text, timeout_ms, seed, use_cvc5 = args[:4]
    cfg = args[4] if len(args) > 4 else None
    import z3 as _z3
    t0 = time.time()
    try:
        s = _z3.Solver()
        s.set("timeout", int(timeout_ms))
        if seed:
            s.set("random_seed", int(seed))
        for k_, v_ in (cfg or {}).items():
            s.set(k_, v_)
        s.from_string(text)
        r = s.check()
        if r == _z3.unsat:
            return ("discharged", "z3", "", time.time() - t0)
        if r == _z3.sat:
            return ("refuted", "z3", "", time.time() - t0)
        reason = s.reason_unknown()
        if use_cvc5:
            r5 = cvc5_text(text, max(5, int(timeout_ms) // 1000))
            if r5 == "unsat":
                return ("discharged", "cvc5", reason, time.time() - t0)
        st = "timeout" if ("timeout" in reason or "canceled" in reason or "resource" in reason) else "unknown"
        return (st, None, reason, time.time() - t0)
    except Exception as ex:      # a crash of the solver process is 'undecided', never a verdict
        return ("error", None, repr(ex), time.time() - t0)


def cvc5_text(text: str, timeout_s: int) -> str:
    exe = "/usr/bin/cvc5"
    if not os.path.exists(exe) or "(lambda" in text:
        return "unavailable"
    with tempfile.NamedTemporaryFile("w", suffix=".smt2", delete=False) as f:
        f.write("(set-logic ALL)\n" + text)
        path = f.name
    try:
        p = subprocess.run([exe, "--strings-exp", f"--tlimit={timeout_s * 1000}", path], capture_output=True, text=True,
                           timeout=timeout_s + 5)
        out = p.stdout.strip().splitlines()
        return out[0] if out else "error"
    except Exception:
        return "error"
    finally:
        try:
            os.unlink(path)
        except OSError:
            pass


def solve_pool(obs, pool, timeout_ms=20000, seed=0, quick_ms=4000, use_cvc5=True):
    """quick pass for everything, full budget for one representative instance of each still-open name"""
    todo = [ob for ob in obs if ob.status is None]
    texts = {id(ob): to_smt2(ob) for ob in todo}
    res = pool.map(_pool_check, [(texts[id(ob)], quick_ms, seed, False) for ob in todo], chunksize=4)
    for ob, (st, be, reason, secs) in zip(todo, res):
        ob.status, ob.backend, ob.reason, ob.seconds = st, be, reason, secs
    open_obs = [ob for ob in todo if ob.status in ("timeout", "unknown", "error")]
    reps, seen = [], set()
    for ob in open_obs:
        if ob.name in seen:
            ob.status, ob.reason = "skipped", "another path instance of the same obligation is already open"
            continue
        seen.add(ob.name)
        reps.append(ob)
    res = pool.map(_pool_check, [(texts[id(ob)], timeout_ms, seed, use_cvc5) for ob in reps], chunksize=1)
    for ob, (st, be, reason, secs) in zip(reps, res):
        ob.status, ob.backend, ob.reason = st, be, reason
        ob.seconds += secs
    # if the representative was discharged after all, its skipped siblings need the full budget too
    again = [ob for ob in open_obs if ob.status == "skipped" and any(r.name == ob.name and r.status == "discharged" for r in reps)]
    if again:
        res = pool.map(_pool_check, [(texts[id(ob)], timeout_ms, seed, use_cvc5) for ob in again], chunksize=1)
        for ob, (st, be, reason, secs) in zip(again, res):
            ob.status, ob.backend, ob.reason = st, be, reason
            ob.seconds += secs
    return obs
