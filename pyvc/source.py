"""pyvc.source -- read /repo's *current working tree* with ast on every run.

Nothing here imports pyrtma: functions, classes, module constants and the ctypes
field tables of the generated message classes are all taken from the source text.
"""
from __future__ import annotations
import ast, hashlib, os, sys

REPO = os.environ.get("PYVC_REPO", "/repo")
PKG = os.path.join(REPO, "src", "pyrtma")


class UnsupportedSyntax(Exception):
    pass


class SourceModule:
    def __init__(self, name: str, path: str):
        self.name = name          # e.g. pyrtma.manager
        self.path = path
        with open(path, "r", encoding="utf-8") as f:
            self.text = f.read()
        self.tree = ast.parse(self.text, filename=path)
        self.lines = self.text.splitlines()
        self.functions: dict[str, ast.FunctionDef] = {}   # qualname -> def
        self.classes: dict[str, ast.ClassDef] = {}
        self.imports: dict[str, str] = {}     # local alias -> dotted target
        self.assigns: dict[str, ast.expr] = {}  # module level NAME = expr
        self._index()

    def _index(self):
        for node in self.tree.body:
            self._index_stmt(node)

    def _index_stmt(self, node):
        if isinstance(node, (ast.FunctionDef, ast.AsyncFunctionDef)):
            self.functions[node.name] = node
        elif isinstance(node, ast.ClassDef):
            self.classes[node.name] = node
            for sub in node.body:
                if isinstance(sub, (ast.FunctionDef, ast.AsyncFunctionDef)):
                    key = f"{node.name}.{sub.name}"
                    # property setters share the name: keep getter under name, setter under name.setter
                    is_setter = any(
                        isinstance(d, ast.Attribute) and d.attr == "setter"
                        for d in sub.decorator_list
                    )
                    if is_setter:
                        key += ".setter"
                    self.functions[key] = sub
        elif isinstance(node, ast.Import):
            for a in node.names:
                self.imports[a.asname or a.name.split(".")[0]] = a.name
        elif isinstance(node, ast.ImportFrom):
            base = node.module or ""
            if node.level:
                parts = self.name.split(".")
                pkg = parts[: len(parts) - node.level]
                base = ".".join(pkg + ([base] if base else []))
            for a in node.names:
                self.imports[a.asname or a.name] = f"{base}.{a.name}"
                self.assigns.pop(a.asname or a.name, None)
        elif isinstance(node, ast.Assign):
            for t in node.targets:
                if isinstance(t, ast.Name):
                    self.assigns[t.id] = node.value
        elif isinstance(node, ast.AnnAssign):
            if isinstance(node.target, ast.Name) and node.value is not None:
                self.assigns[node.target.id] = node.value
        elif isinstance(node, ast.If):
            # module-level guards (e.g. version checks around imports): index both arms
            for sub in node.body + node.orelse:
                self._index_stmt(sub)
        elif isinstance(node, ast.Try):
            # `try: from .x import Y  except ...: Y = fallback`: the try body wins
            for h in node.handlers:
                for sub in h.body:
                    self._index_stmt(sub)
            for sub in node.body:
                self._index_stmt(sub)

    def span(self, node) -> tuple[int, int]:
        return node.lineno, getattr(node, "end_lineno", node.lineno)

    def sha1(self, node) -> str:
        a, b = self.span(node)
        return hashlib.sha1("\n".join(self.lines[a - 1 : b]).encode()).hexdigest()


class Source:
    """All python modules of the package, indexed."""

    def __init__(self, repo: str | None = None):
        self.repo = repo or REPO
        self.pkg = os.path.join(self.repo, "src", "pyrtma")
        self.modules: dict[str, SourceModule] = {}
        for root, dirs, files in os.walk(self.pkg):
            dirs[:] = [d for d in dirs if d != "__pycache__"]
            for fn in files:
                if not fn.endswith(".py"):
                    continue
                path = os.path.join(root, fn)
                rel = os.path.relpath(path, os.path.join(self.repo, "src"))
                name = rel[:-3].replace(os.sep, ".")
                if name.endswith(".__init__"):
                    name = name[: -len(".__init__")]
                try:
                    self.modules[name] = SourceModule(name, path)
                except SyntaxError as e:  # a file that does not parse: report, do not hide
                    raise UnsupportedSyntax(f"cannot parse {path}: {e}")
        self._const_cache: dict[tuple[str, str], object] = {}
        self._class_index: dict[str, tuple[str, ast.ClassDef]] = {}
        for mn, m in self.modules.items():
            for cn, c in m.classes.items():
                # later definitions with the same bare name in other modules are kept under mod:name
                self._class_index.setdefault(cn, (mn, c))
                self._class_index[f"{mn}:{cn}"] = (mn, c)

    # ---------------------------------------------------------------- lookup
    def module(self, name: str) -> SourceModule:
        if name in self.modules:
            return self.modules[name]
        if "pyrtma." + name in self.modules:
            return self.modules["pyrtma." + name]
        raise KeyError(name)

    def function(self, key: str) -> tuple[SourceModule, ast.FunctionDef]:
        """key = 'pyrtma.manager:MessageManager.forward_message'"""
        mn, qn = key.split(":")
        qn = qn.split("#")[0]          # contract variants (same function, other parameter types)
        m = self.module(mn)
        if qn not in m.functions:
            raise KeyError(f"function {key} not found in {m.path}")
        return m, m.functions[qn]

    def find_class(self, name: str):
        return self._class_index.get(name)

    def class_bases(self, name: str) -> list[str]:
        ent = self.find_class(name)
        if not ent:
            return []
        out = []
        for b in ent[1].bases:
            if isinstance(b, ast.Name):
                out.append(b.id)
            elif isinstance(b, ast.Attribute):
                out.append(b.attr)
            elif isinstance(b, ast.Subscript):  # Generic[...] / Base[_P, X]
                v = b.value
                out.append(v.id if isinstance(v, ast.Name) else getattr(v, "attr", "?"))
        return out

    def mro(self, name: str) -> list[str]:
        seen, order = set(), []

        def walk(n):
            if n in seen:
                return
            seen.add(n)
            order.append(n)
            for b in self.class_bases(n):
                walk(b)

        walk(name)
        return order

    def is_subclass(self, a: str, b: str) -> bool:
        return b in self.mro(a) or is_builtin_subclass(a, b)

    def find_method(self, cls: str, meth: str):
        """(module, class, def) of the first definition along the (linearised) bases."""
        for c in self.mro(cls):
            ent = self.find_class(c)
            if not ent:
                continue
            mn, cdef = ent
            m = self.modules[mn]
            if f"{c}.{meth}" in m.functions:
                return m, c, m.functions[f"{c}.{meth}"]
        return None

    # ------------------------------------------------------------- constants
    def const(self, modname: str, name: str, _depth=0):
        """Value of a module-level constant (int/float/str/bool/None/tuple) or raise KeyError."""
        key = (modname, name)
        if key in self._const_cache:
            return self._const_cache[key]
        m = self.module(modname)
        if name in m.assigns:
            v = self.eval_const(m, m.assigns[name], _depth + 1)
            self._const_cache[key] = v
            return v
        if name in m.imports and _depth < 8:
            tgt = m.imports[name]
            if "." in tgt:
                tm, tn = tgt.rsplit(".", 1)
                if tm in self.modules or "pyrtma." + tm in self.modules:
                    return self.const(tm, tn, _depth + 1)
        raise KeyError(f"{modname}.{name}")

    def eval_const(self, m: SourceModule, e: ast.expr, _depth=0):
        if isinstance(e, ast.Constant):
            return e.value
        if isinstance(e, ast.UnaryOp) and isinstance(e.op, (ast.USub, ast.UAdd, ast.Not)):
            v = self.eval_const(m, e.operand, _depth)
            return -v if isinstance(e.op, ast.USub) else (+v if isinstance(e.op, ast.UAdd) else (not v))
        if isinstance(e, ast.BinOp):
            a, b = self.eval_const(m, e.left, _depth), self.eval_const(m, e.right, _depth)
            ops = {ast.Add: lambda: a + b, ast.Sub: lambda: a - b, ast.Mult: lambda: a * b,
                   ast.Pow: lambda: a ** b, ast.FloorDiv: lambda: a // b, ast.Mod: lambda: a % b,
                   ast.LShift: lambda: a << b, ast.RShift: lambda: a >> b,
                   ast.BitOr: lambda: a | b, ast.BitAnd: lambda: a & b, ast.Div: lambda: a / b}
            for k, f in ops.items():
                if isinstance(e.op, k):
                    return f()
        if isinstance(e, ast.Name):
            return self.const(m.name, e.id, _depth)
        if isinstance(e, ast.Attribute) and isinstance(e.value, ast.Name):
            tgt = m.imports.get(e.value.id)
            if tgt and (tgt in self.modules or "pyrtma." + tgt in self.modules):
                return self.const(tgt, e.attr, _depth)
        if isinstance(e, ast.Tuple):
            return tuple(self.eval_const(m, x, _depth) for x in e.elts)
        if isinstance(e, ast.Attribute):
            dotted = ast.unparse(e)
            if dotted in self.KNOWN_CONSTS:
                return self.KNOWN_CONSTS[dotted]
        raise KeyError(f"not a constant expression: {ast.dump(e)[:80]}")

    KNOWN_CONSTS = {"sys.float_info.max": 1.7976931348623157e308, "sys.float_info.min": 2.2250738585072014e-308, "sys.float_info.epsilon": 2.220446049250313e-16,
                    "sys.maxsize": 2 ** 63 - 1, "math.inf": float("inf"), "math.pi": 3.141592653589793}

    def class_const(self, cname: str, attr: str):
        """value of a class-level constant `attr = <constant expression>` found along the MRO of cname; raises KeyError if there is none"""
        for c in self.mro(cname):
            ent = self.find_class(c)
            if not ent:
                continue
            mn, cdef = ent
            for st in cdef.body:
                tgt = val = None
                if isinstance(st, ast.AnnAssign) and isinstance(st.target, ast.Name):
                    tgt, val = st.target.id, st.value
                elif isinstance(st, ast.Assign) and len(st.targets) == 1 and isinstance(st.targets[0], ast.Name):
                    tgt, val = st.targets[0].id, st.value
                if tgt == attr and val is not None:
                    return self.eval_const(self.modules[mn], val)
        raise KeyError(attr)

    # ------------------------------------------------- ctypes message classes
    INT_VALIDATORS = {
        "Int8": (1, True), "Int16": (2, True), "Int32": (4, True), "Int64": (8, True),
        "Uint8": (1, False), "Uint16": (2, False), "Uint32": (4, False), "Uint64": (8, False),
    }

    def ctypes_class(self, name: str):
        """Field table of a MessageMeta class, from the descriptor assignments in its body.

        returns dict(fields=[(name, kind, info)], classvars={...}, bases=[...]) or None
        kind in int / float / double / byte / char / string / intarray / floatarray / bytearray /
                struct / structarray
        """
        ent = self.find_class(name)
        if not ent:
            return None
        mn, cdef = ent
        m = self.modules[mn]
        fields, classvars = [], {}
        for b in self.class_bases(name):
            sup = self.ctypes_class(b) if self.find_class(b) else None
            if sup:
                fields.extend(sup["fields"])
                classvars.update(sup["classvars"])
        own_start = len(fields)          # ctypes: a subclass's _fields_ lists only the fields it declares itself
        for st in cdef.body:
            tgt = val = None
            if isinstance(st, ast.AnnAssign) and isinstance(st.target, ast.Name):
                tgt, val = st.target.id, st.value
            elif isinstance(st, ast.Assign) and len(st.targets) == 1 and isinstance(st.targets[0], ast.Name):
                tgt, val = st.targets[0].id, st.value
            if tgt is None or val is None:
                continue
            if isinstance(val, ast.Call) and isinstance(val.func, ast.Name):
                fn = val.func.id
                args = val.args
                if fn in self.INT_VALIDATORS:
                    size, signed = self.INT_VALIDATORS[fn]
                    fields.append((tgt, "int", dict(size=size, signed=signed, validator=fn)))
                elif fn in ("Float", "Double"):
                    fields.append((tgt, "float" if fn == "Float" else "double", dict(size=4 if fn == "Float" else 8)))
                elif fn == "Byte":
                    fields.append((tgt, "byte", dict(size=1)))
                elif fn == "Char":
                    fields.append((tgt, "char", dict(size=1)))
                elif fn == "String":
                    n = self.eval_const(m, args[0]) if args else 1
                    fields.append((tgt, "string", dict(size=n, length=n)))
                elif fn == "ByteArray":
                    n = self.eval_const(m, args[0])
                    fields.append((tgt, "bytearray", dict(size=n, length=n)))
                elif fn == "IntArray":
                    el = args[0].id
                    size, signed = self.INT_VALIDATORS[el]
                    n = self.eval_const(m, args[1])
                    fields.append((tgt, "intarray", dict(elem=el, esize=size, signed=signed, length=n, size=size * n)))
                elif fn == "FloatArray":
                    el = args[0].id
                    es = 4 if el == "Float" else 8
                    n = self.eval_const(m, args[1])
                    fields.append((tgt, "floatarray", dict(elem=el, esize=es, length=n, size=es * n)))
                elif fn == "Struct":
                    fields.append((tgt, "struct", dict(cls=args[0].id)))
                elif fn == "StructArray":
                    n = self.eval_const(m, args[1])
                    fields.append((tgt, "structarray", dict(cls=args[0].id, length=n)))
                else:
                    continue
            else:
                try:
                    classvars[tgt] = self.eval_const(m, val)
                except KeyError:
                    pass
        return dict(name=name, module=mn, fields=fields, classvars=classvars, bases=self.class_bases(name), own_start=own_start)

    def ctypes_layout(self, name: str):
        """natural-alignment layout (offset, size, align) per field; (size, align) of the struct.
        Assumption (trusted): ctypes.Structure without _pack_ uses natural alignment."""
        info = self.ctypes_class(name)
        off, maxal, out = 0, 1, []
        for fname, kind, d in info["fields"]:
            if kind in ("struct", "structarray"):
                sz, al, _ = self.ctypes_layout(d["cls"])
                n = d.get("length", 1)
                size, align = sz * n, al
            elif kind in ("intarray", "floatarray"):
                size, align = d["size"], d["esize"]
            elif kind in ("string", "bytearray"):
                size, align = d["size"], 1
            else:
                size, align = d["size"], d["size"]
            off = (off + align - 1) // align * align
            out.append((fname, off, size, align))
            off += size
            maxal = max(maxal, align)
        total = (off + maxal - 1) // maxal * maxal
        return total, maxal, out

    def message_classes(self, modname="pyrtma.core_defs"):
        """type_id -> class name for every MDF_ class of a generated definition module."""
        m = self.module(modname)
        out = {}
        for cn in m.classes:
            if cn.startswith("MDF_"):
                info = self.ctypes_class(cn)
                if info and "type_id" in info["classvars"]:
                    out[info["classvars"]["type_id"]] = cn
        return out


BUILTIN_EXC = {
    "BaseException": None, "Exception": "BaseException", "KeyboardInterrupt": "BaseException",
    "SystemExit": "BaseException", "GeneratorExit": "BaseException",
    "ArithmeticError": "Exception", "ZeroDivisionError": "ArithmeticError", "OverflowError": "ArithmeticError",
    "AssertionError": "Exception", "AttributeError": "Exception", "LookupError": "Exception",
    "IndexError": "LookupError", "KeyError": "LookupError", "NameError": "Exception",
    "OSError": "Exception", "ConnectionError": "OSError", "BrokenPipeError": "ConnectionError",
    "ConnectionAbortedError": "ConnectionError", "ConnectionRefusedError": "ConnectionError",
    "ConnectionResetError": "ConnectionError", "TimeoutError": "OSError", "FileNotFoundError": "OSError",
    "RuntimeError": "Exception", "RecursionError": "RuntimeError", "NotImplementedError": "RuntimeError",
    "StopIteration": "Exception", "TypeError": "Exception", "ValueError": "Exception",
    "UnicodeError": "ValueError", "UnicodeDecodeError": "UnicodeError", "UnicodeEncodeError": "UnicodeError",
    "struct.error": "Exception", "json.JSONDecodeError": "ValueError", "JSONDecodeError": "ValueError",
}


def is_builtin_subclass(a: str, b: str) -> bool:
    while a is not None:
        if a == b:
            return True
        a = BUILTIN_EXC.get(a)
    return False
