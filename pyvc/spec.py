"""pyvc.spec -- the sidecar contract language (declarations only; /repo is never annotated).

A sidecar is a python module under /verif/contracts that calls the functions below.  Every
clause is a *string* holding a python expression; it is parsed with ast and translated by the
same expression translator as the code (in spec mode: total operators, old(), forall(),
exists(), implies(), result, spec functions).
"""
from __future__ import annotations
import ast
from .core import parse_type


class Clause:
    def __init__(self, expr: str, tags=(), label=""):
        self.expr, self.tags, self.label = expr, tuple(tags), label
        self.tree = ast.parse(expr.strip(), mode="eval").body

    def __repr__(self):
        return f"Clause({self.expr!r}, tags={self.tags})"


def _clauses(items, default_tags=()):
    out = []
    for it in items or []:
        if isinstance(it, Clause):
            out.append(it)
        elif isinstance(it, tuple):
            tags, expr = it[0], it[1]
            label = it[2] if len(it) > 2 else ""
            out.append(Clause(expr, tuple(tags.split()), label))
        else:
            out.append(Clause(it, tuple(default_tags)))
    return out


class LoopSpec:
    def __init__(self, invariant=(), done="done", idx="idx", seq="seq", tags=(), decreases=None):
        self.invariant = _clauses(invariant, tags)
        self.done, self.idx, self.seq = done, idx, seq
        self.decreases = decreases


class ClassDecl:
    def __init__(self, name, fields=None, ghost=None, bases=(), external=False, ctypes=False, doc=""):
        self.name = name
        self.fields = {k: parse_type(v) for k, v in (fields or {}).items()}
        self.ghost = {k: parse_type(v) for k, v in (ghost or {}).items()}
        self.bases = list(bases)
        self.external = external
        self.ctypes = ctypes
        self.doc = doc

    def field_type(self, f):
        if f in self.fields:
            return self.fields[f]
        return self.ghost.get(f)


class Contract:
    def __init__(self, key, params=None, returns=None, requires=(), ensures=(), raises=None,
                 modifies=(), loops=None, ghost_entry=(), ghost_exit=(), external=False, tags=(),
                 locals=None, doc="", pure=False, handler=None, allow_escape=(), assume_on_entry=(), ghost_after=None, ghost_results=None, yield_raises=False, ctype_model=None, prelude=None, reveal=(), const_params=None):
        self.key = key
        self.params = {k: parse_type(v) for k, v in (params or {}).items()}
        self.returns = parse_type(returns) if returns else None
        self.tags = tuple(tags.split()) if isinstance(tags, str) else tuple(tags)
        self.requires = _clauses(requires, self.tags)
        self.ensures = _clauses(ensures, self.tags)
        self.raises = {k: _clauses(v, self.tags) for k, v in (raises or {}).items()}
        self.modifies = list(modifies)
        self.loops = {k: (v if isinstance(v, LoopSpec) else LoopSpec(**v)) for k, v in (loops or {}).items()}
        self.ghost_entry = [ast.parse(s).body for s in ghost_entry]
        self.ghost_exit = [ast.parse(s).body for s in ghost_exit]
        self.ghost_entry_src = list(ghost_entry)
        self.ghost_exit_src = list(ghost_exit)
        self.ghost_after_src = {k: ([v] if isinstance(v, str) else list(v)) for k, v in (ghost_after or {}).items()}
        self.external = external
        self.locals = {k: parse_type(v) for k, v in (locals or {}).items()}
        self.doc = doc
        self.pure = pure
        self.handler = handler          # python callable for externals that need code
        self.allow_escape = tuple(allow_escape)
        self.assume_on_entry = _clauses(assume_on_entry, self.tags)
        self.yield_raises = yield_raises
        self.ctype_model = ctype_model
        self.reveal = tuple(reveal)
        self.const_params = dict(const_params or {})    # parameters fixed to a python constant for this contract variant (e.g. a literal tuple of names)
        self.prelude = prelude          # key of an external contract applied at every call site BEFORE the requires (interference of another thread)
        self.ghost_results = {k: parse_type(v) for k, v in (ghost_results or {}).items()}
        # ghost statements run after the normal return of a call to the named callee inside this function
        self.ghost_after = {k: [ast.parse(x).body for x in ([v] if isinstance(v, str) else v)] for k, v in (ghost_after or {}).items()}

    @property
    def qualname(self):
        return self.key.split(":")[-1].split("#")[0]

    @property
    def variant(self):
        return self.key.split("#")[1] if "#" in self.key else ""


class SpecFunc:
    def __init__(self, name, params, body, doc=""):
        self.name = name
        self.params = []
        parts, depth, cur = [], 0, ""
        for ch in params:
            if ch == "[":
                depth += 1
            elif ch == "]":
                depth -= 1
            if ch == "," and depth == 0:
                parts.append(cur)
                cur = ""
            else:
                cur += ch
        parts.append(cur)
        for p in [x.strip() for x in parts if x.strip()]:
            n, t = p.split(":", 1)
            self.params.append((n.strip(), parse_type(t.strip())))
        self.body = ast.parse(body.strip(), mode="eval").body
        self.text = body
        self.doc = doc


class Registry:
    def __init__(self):
        self.classes: dict[str, ClassDecl] = {}
        self.contracts: dict[str, Contract] = {}      # full key and bare 'Class.meth' / 'func'
        self.variants: dict[str, list] = {}           # qualname -> contracts of the same function for other argument types
        self.specfuncs: dict[str, SpecFunc] = {}
        self.inline: set[str] = set()
        self.globals: dict[str, tuple] = {}           # ghost / module globals: name -> type
        self.global_init: dict[str, str] = {}
        self.assumptions: list[str] = []              # free-text list of trusted items (reported)
        self.lemmas: dict[str, dict] = {}
        self.targets: dict[str, list[str]] = {}       # property id -> list of contract keys to verify
        self.notes: dict[str, str] = {}

    # -- sidecar API ----------------------------------------------------------------
    def declare_class(self, name, **kw):
        self.classes[name] = ClassDecl(name, **kw)
        return self.classes[name]

    def contract(self, key, **kw):
        c = Contract(key, **kw)
        self.contracts[key] = c
        if "#" in key:
            self.variants.setdefault(c.qualname, []).append(c)
        else:
            self.contracts.setdefault(c.qualname, c)
        return c

    def external(self, qualname, **kw):
        kw["external"] = True
        c = Contract("<external>:" + qualname, **kw)
        self.contracts[qualname] = c
        return c

    def define(self, name, params, body, doc="", opaque=False):
        self.specfuncs[name] = SpecFunc(name, params, body, doc)
        # an opaque predicate over values is an uninterpreted symbol in every function whose contract does not `reveal` it (callers carry it, they do not unfold it)
        self.specfuncs[name].opaque = opaque

    def mark_inline(self, *keys):
        for k in keys:
            self.inline.add(k)
            self.inline.add(k.split(":")[-1])

    def ghost_global(self, name, type_, init=None):
        self.globals[name] = parse_type(type_)
        if init is not None:
            self.global_init[name] = init

    def assume_text(self, *items):
        for it in items:
            if it not in self.assumptions:
                self.assumptions.append(it)

    def lemma(self, name, vars, requires, ensures, tags=""):
        self.lemmas[name] = dict(vars=vars, requires=_clauses(requires), ensures=_clauses(ensures),
                                 tags=tuple(tags.split()))

    def target(self, prop, *keys):
        self.targets.setdefault(prop, [])
        for k in keys:
            if k not in self.targets[prop]:
                self.targets[prop].append(k)

    # -- lookup ---------------------------------------------------------------------
    def find_contract(self, qualname):
        return self.contracts.get(qualname)

    def class_decl(self, name):
        return self.classes.get(name)
