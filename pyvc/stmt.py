"""pyvc.stmt -- statements, loops (cut at invariants), try/with, assignment to lvalues."""
from __future__ import annotations
import ast
import z3
from .core import *
from .engine import Unsupported
from .spec import LoopSpec

NORMAL = ("normal",)


class StmtMixin:
    # ------------------------------------------------------------------ blocks
    def exec_block(self, stmts, st: State):
        states = [(st, NORMAL)]
        for stmt in stmts:
            nxt = []
            for s, oc in states:
                if oc[0] != "normal":
                    nxt.append((s, oc))
                    continue
                nxt.extend(self.exec_stmt(stmt, s))
            states = nxt
            self.npaths = max(self.npaths, len(states))
            if len(states) > self.max_paths:
                raise Unsupported(f"path explosion (> {self.max_paths} live paths)", stmt, self.path)
        return states

    def exec_stmt(self, node, st: State):
        m = getattr(self, "st_" + type(node).__name__, None)
        if m is None:
            raise Unsupported(f"statement {type(node).__name__}", node, self.path)
        st.note(getattr(node, "lineno", 0), type(node).__name__)
        return m(node, st)

    def _lift(self, results, fn):
        """results of an expression evaluation -> statement outcomes"""
        out = []
        for s, v in results:
            if isinstance(v, Exc):
                out.append((s, ("raise", v)))
            else:
                r = fn(s, v)
                if r is None:
                    out.append((s, NORMAL))
                else:
                    out.extend(r)
        return out

    # ------------------------------------------------------------------ simple statements
    def st_Expr(self, node, st):
        if isinstance(node.value, ast.Constant):
            return [(st, NORMAL)]          # docstring
        if isinstance(node.value, ast.Yield):
            # a @contextmanager generator under contract: the with-body is assumed to have no effect on
            # the state the contract talks about and to end normally (the exceptional continuation is
            # covered where a property asks for it, see C09)
            self.lib.use("generator under contract: at `yield` the with-body runs; it is assumed effect-free and to end normally")
            outs = []
            if self.contract is not None and getattr(self.contract, "yield_raises", False):
                # contextlib throws the with-body's exception at the yield
                exc_state = st.fork()
                exc_state.locals["__body_raised__"] = self.const_val(True)
                outs.append((exc_state, ("raise", Exc("Exception", "raised by the with-body", node.lineno))))
            if node.value.value is not None:
                return outs + self._lift(self.ev(node.value.value, st), lambda s, v: None)
            return outs + [(st, NORMAL)]
        return self._lift(self.ev(node.value, st), lambda s, v: None)

    def st_Pass(self, node, st):
        return [(st, NORMAL)]

    def st_Global(self, node, st):
        st.frames[-1].setdefault("__globals__", set())
        st.frames[-1]["__globals__"] = set(st.frames[-1]["__globals__"]) | set(node.names)
        return [(st, NORMAL)]

    def st_Import(self, node, st):
        return [(st, NORMAL)]

    st_ImportFrom = st_Import

    def st_Return(self, node, st):
        if node.value is None:
            return [(st, ("return", None))]
        return [(s, ("raise", v)) if isinstance(v, Exc) else (s, ("return", v)) for s, v in self.ev(node.value, st)]

    def st_Break(self, node, st):
        return [(st, ("break",))]

    def st_Continue(self, node, st):
        return [(st, ("continue",))]

    def st_Assert(self, node, st):
        out = []
        for s, v in self.ev(node.test, st):
            if isinstance(v, Exc):
                out.append((s, ("raise", v)))
                continue
            for s2, ok in self.split(s, self.truth(v)):
                out.append((s2, NORMAL) if ok else (s2, ("raise", Exc("AssertionError", "assert", node.lineno))))
        return out

    def st_Raise(self, node, st):
        if node.exc is None:
            if st.handled:
                return [(st, ("raise", st.handled[-1]))]
            return [(st, ("raise", Exc("RuntimeError", "No active exception to reraise", node.lineno)))]
        out = []
        for s, v in self.ev(node.exc, st):
            if isinstance(v, Exc):
                out.append((s, ("raise", v)))
            elif v.t[0] == "excval":
                out.append((s, ("raise", Exc(v.conc, "raise", node.lineno))))
            elif v.t[0] == "cls":
                out.append((s, ("raise", Exc(v.conc, "raise", node.lineno))))
            elif v.t[0] == "exc":
                out.append((s, ("raise", Exc(v.conc or "Exception", "re-raise of bound exception", node.lineno))))
            else:
                raise Unsupported("raise of a non-exception value", node, self.path)
        return out

    def st_Delete(self, node, st):
        states = [(st, NORMAL)]
        for tgt in node.targets:
            nxt = []
            for s, oc in states:
                if oc[0] != "normal":
                    nxt.append((s, oc))
                    continue
                nxt.extend(self.delete_target(tgt, s))
            states = nxt
        return states

    def delete_target(self, tgt, st):
        if isinstance(tgt, ast.Subscript):
            out = []
            for s, vals in self.ev_seq([tgt.value, tgt.slice], st):
                if isinstance(vals, Exc):
                    out.append((s, ("raise", vals)))
                    continue
                base, key = vals
                if base.t[0] != "dict":
                    raise Unsupported("del on a non-dict subscript", tgt, self.path)
                dt = self.sort(base.t)
                kz = self.coerce(key, base.t[1], tgt).z
                for s2, present in self.split(s, z3.Select(dt.dom(base.z), kz)):
                    if not present:
                        out.append((s2, ("raise", Exc("KeyError", "del of missing key", tgt.lineno))))
                        continue
                    nv = Val(base.t, dt.mk(z3.Store(dt.dom(base.z), kz, False), dt.val(base.z)))
                    out.extend(self.assign_lvalue(tgt.value, nv, s2, raw=True))
            return out
        if isinstance(tgt, ast.Name):
            st.locals.pop(tgt.id, None)
            return [(st, NORMAL)]
        raise Unsupported("del target", tgt, self.path)

    # ------------------------------------------------------------------ assignment
    def st_Assign(self, node, st):
        out = []
        for s, v in self.ev(node.value, st):
            if isinstance(v, Exc):
                out.append((s, ("raise", v)))
                continue
            states = [(s, NORMAL)]
            for tgt in node.targets:
                nxt = []
                for s2, oc in states:
                    if oc[0] != "normal":
                        nxt.append((s2, oc))
                    else:
                        nxt.extend(self.assign_lvalue(tgt, v, s2))
                states = nxt
            out.extend(states)
        return out

    def st_AnnAssign(self, node, st):
        if node.value is None:
            return [(st, NORMAL)]
        out = []
        for s, v in self.ev(node.value, st):
            if isinstance(v, Exc):
                out.append((s, ("raise", v)))
            else:
                out.extend(self.assign_lvalue(node.target, v, s))
        return out

    def st_AugAssign(self, node, st):
        load = ast.copy_location(self._as_load(node.target), node.target)
        out = []
        for s, vals in self.ev_seq([load, node.value], st):
            if isinstance(vals, Exc):
                out.append((s, ("raise", vals)))
                continue
            cur, rhs = vals
            if cur.t[0] == "set" and isinstance(node.op, (ast.BitOr, ast.Sub, ast.BitAnd)):
                rs = self.binop(node.op, cur, rhs, s, node)
            elif cur.t[0] == "list" and isinstance(node.op, ast.Add):
                rs = [(s, self.lib.list_concat(cur, rhs))]
            else:
                rs = self.binop(node.op, cur, rhs, s, node)
            for s2, nv in rs:
                if isinstance(nv, Exc):
                    out.append((s2, ("raise", nv)))
                else:
                    out.extend(self.assign_lvalue(node.target, nv, s2, raw=(cur.t[0] in ("set", "list", "dict"))))
        return out

    def _as_load(self, tgt):
        import copy
        t = copy.deepcopy(tgt)
        for n in ast.walk(t):
            if hasattr(n, "ctx"):
                n.ctx = ast.Load()
        return t

    def assign_lvalue(self, tgt, v: Val, st: State, raw=False):
        """-> list of (state, outcome)"""
        if isinstance(tgt, ast.Name):
            name = tgt.id
            if name in st.frames[-1].get("__globals__", ()) or (self.ghost_mode and name in self.reg.globals) or \
                    (name not in st.frames[-1] and name in self.reg.globals and self.reg.globals[name][0] == "ctxvar" and v.t[0] == "ctxvar"):
                gname = self.global_key(st, name)
                self.set_global(st, gname, v)
                return [(st, NORMAL)]
            decl = self.contract.locals.get(name) if (self.contract and len(st.frames) == 1) else None
            if decl is not None:
                v = self.coerce(self.adapt_empty(v, decl), decl, tgt)
            st.locals[name] = v
            self.assume_type(st, v)
            return [(st, NORMAL)]
        if isinstance(tgt, (ast.Tuple, ast.List)):
            if any(isinstance(x, ast.Starred) for x in tgt.elts):
                raise Unsupported("starred assignment target", tgt, self.path)
            parts = self.lib.unpack(v, len(tgt.elts), st, tgt)
            states = [(st, NORMAL)]
            for t2, pv in zip(tgt.elts, parts):
                nxt = []
                for s2, oc in states:
                    nxt.extend(self.assign_lvalue(t2, pv, s2) if oc[0] == "normal" else [(s2, oc)])
                states = nxt
            return states
        if isinstance(tgt, ast.Attribute):
            out = []
            for s, base in self.ev(tgt.value, st):
                if isinstance(base, Exc):
                    out.append((s, ("raise", base)))
                    continue
                if base.t[0] == "ref":
                    for s2, r in self.lib.field_set(base, tgt.attr, v, s, tgt, raw=raw):
                        out.append((s2, ("raise", r)) if isinstance(r, Exc) else (s2, NORMAL))
                elif base.t[0] == "globalvar":
                    raise Unsupported("assignment to attribute of a module global", tgt, self.path)
                else:
                    raise Unsupported(f"attribute store on {tstr(base.t)}", tgt, self.path)
            return out
        if isinstance(tgt, ast.Subscript):
            out = []
            if isinstance(tgt.slice, ast.Slice):
                return self.lib.slice_set(tgt, v, st)
            for s, vals in self.ev_seq([tgt.value, tgt.slice], st):
                if isinstance(vals, Exc):
                    out.append((s, ("raise", vals)))
                    continue
                base, idx = vals
                for s2, nb in self.lib.container_store(base, idx, v, s, tgt, target_expr=tgt.value):
                    if isinstance(nb, Exc):
                        out.append((s2, ("raise", nb)))
                    elif nb is None:
                        out.append((s2, NORMAL))
                    else:
                        out.extend(self.assign_lvalue(tgt.value, nb, s2, raw=True))
            return out
        raise Unsupported(f"assignment target {type(tgt).__name__}", tgt, self.path)

    def global_key(self, st, name):
        if name in self.reg.globals:
            return name
        mod = self.cur_module(st)
        g = f"{mod.name.split('.')[-1]}.{name}"
        if g in self.reg.globals:
            return g
        raise Unsupported(f"module global {name} is not declared in the sidecar")

    # ------------------------------------------------------------------ control flow
    def st_If(self, node, st):
        out = []
        for s, c in self.ev(node.test, st):
            if isinstance(c, Exc):
                out.append((s, ("raise", c)))
                continue
            for s2, side in self.split(s, self.truth(c)):
                out.extend(self.exec_block(node.body if side else node.orelse, s2))
        return out

    def exc_matches(self, exc: Exc, handler_type, st):
        """'yes' / 'no' / 'maybe' for `except handler_type` against a raised static class"""
        if handler_type is None:
            return "yes"
        names = []
        if isinstance(handler_type, ast.Tuple):
            elts = handler_type.elts
        else:
            elts = [handler_type]
        for e in elts:
            if isinstance(e, ast.Name):
                names.append(e.id)
            elif isinstance(e, ast.Attribute):
                names.append(e.attr)
            else:
                raise Unsupported("except clause type", handler_type, self.path)
        verdict = "no"
        for n in names:
            if self.is_subclass(exc.cls, n):
                return "yes"
            if self.is_subclass(n, exc.cls):
                verdict = "maybe"
        return verdict

    def st_Try(self, node, st):
        body_out = self.exec_block(node.body, st)
        after = []
        for s, oc in body_out:
            if oc[0] == "raise":
                exc = oc[1]
                handled = False
                for h in node.handlers:
                    mt = self.exc_matches(exc, h.type, s)
                    if mt == "no":
                        continue
                    hs = s
                    rest = None
                    if mt == "maybe":
                        # the raised object is some subclass of exc.cls: it may or may not match
                        rest = s.fork()
                        hs = s
                    if h.name:
                        hs.locals[h.name] = Val(EXC, z3.Const(fresh_name("exc"), self.S.Ref), conc=exc.cls)
                    hs.handled = hs.handled + [exc]
                    for s2, oc2 in self.exec_block(h.body, hs):
                        s2.handled = s2.handled[:-1] if s2.handled else []
                        after.append((s2, oc2))
                    if rest is None:
                        handled = True
                        break
                    s = rest
                if not handled:
                    after.append((s, oc))
            elif oc[0] == "normal" and node.orelse:
                after.extend(self.exec_block(node.orelse, s))
            else:
                after.append((s, oc))
        if not node.finalbody:
            return after
        out = []
        for s, oc in after:
            for s2, oc2 in self.exec_block(node.finalbody, s):
                out.append((s2, oc if oc2[0] == "normal" else oc2))
        return out

    def st_With(self, node, st):
        if len(node.items) != 1:
            # nested form: with a, b: -> with a: with b:
            inner = ast.With(items=node.items[1:], body=node.body)
            ast.copy_location(inner, node)
            outer = ast.With(items=node.items[:1], body=[inner])
            ast.copy_location(outer, node)
            return self.st_With(outer, st)
        item = node.items[0]
        return self.lib.with_statement(item, node, st)

    # ------------------------------------------------------------------ loops
    def next_loop(self) -> int:
        self.loop_counter += 1
        return self.loop_counter

    def loop_spec(self, ordinal, node) -> LoopSpec:
        if self.contract and ordinal in self.contract.loops and len(self._frames_depth) == 0:
            return self.contract.loops[ordinal]
        return LoopSpec()

    _frames_depth: list = []

    def assigned_names(self, stmts) -> set:
        names = set()
        for n in ast.walk(ast.Module(body=list(stmts), type_ignores=[])):
            if isinstance(n, ast.Name) and isinstance(n.ctx, (ast.Store, ast.Del)):
                names.add(n.id)
            elif isinstance(n, ast.ExceptHandler) and n.name:
                names.add(n.name)
            elif isinstance(n, ast.Subscript) and isinstance(n.ctx, (ast.Store, ast.Del)) and isinstance(n.value, ast.Name):
                names.add(n.value.id)          # x[i] = v / del x[i] on a local container (value semantics in the encoding)
            elif (isinstance(n, ast.Call) and isinstance(n.func, ast.Attribute) and isinstance(n.func.value, ast.Name)
                  and n.func.attr in self.MUTATORS):
                names.add(n.func.value.id)     # x.append(v), x.add(v), ...: the local is rebound by the write-back
        return names

    MUTATORS = {"append", "extend", "insert", "remove", "pop", "clear", "sort", "reverse", "add", "discard", "update", "difference_update",
                "intersection_update", "symmetric_difference_update", "setdefault", "popitem", "appendleft", "popleft"}

    def discover_writes(self, stmts, st: State, extra_env=None):
        """discovery pass: run the body once from the current state with obligations off and
        record which heap fields / globals / allocation it can write (over-approximation)."""
        s = st.fork()
        s.written = set()
        if extra_env:
            s.frames[-1].update(extra_env)
        self.discovery += 1
        saved = self.loop_counter
        try:
            self.exec_block(stmts, s)
        finally:
            self.discovery -= 1
            self.loop_counter = saved
        return s.written

    def _preexisting(self, ref_term, limit):
        """a reference constant created before the loop (parameters and objects allocated earlier)"""
        if not (z3.is_const(ref_term) and ref_term.decl().kind() == z3.Z3_OP_UNINTERPRETED):
            return False
        nm = ref_term.decl().name()
        if "!" not in nm:
            return True
        try:
            return int(nm.rsplit("!", 1)[1]) < limit
        except ValueError:
            return False

    def havoc_written(self, st: State, written, names, limit=None):
        by_field = {}
        for w in written:
            if w[0] == "heap":
                by_field.setdefault((w[1], w[2]), []).append(w[3] if len(w) > 3 else None)
        for (c, f), refs in by_field.items():
            ty = self.heap_types[(c, f)]
            arr = self.heap_arr(st, c, f, ty)
            pointwise = limit is not None and all(r is not None and self._preexisting(r, limit) for r in refs)
            if pointwise:
                # every write of an iteration goes to an object that existed before the loop:
                # only those objects' fields are arbitrary at the loop head
                seen = set()
                for r in refs:
                    if r.get_id() in seen:
                        continue
                    seen.add(r.get_id())
                    arr = z3.Store(arr, r, z3.Const(fresh_name(f"hv_{c}.{f}"), self.sort(ty)))
                st.heap[(c, f)] = arr
            else:
                st.heap[(c, f)] = z3.Const(fresh_name(f"H_{c}.{f}"), z3.ArraySort(self.S.Ref, self.sort(ty)))
        for w in written:
            if w[0] == "heap":
                continue
            elif w[0] == "glob":
                t = self.reg.globals.get(w[1])
                cur = st.glob.get(w[1])
                t = t or (cur.t if cur is not None else None)
                if t is None:
                    continue
                st.glob[w[1]] = Val(t, z3.Const(fresh_name(f"G_{w[1]}"), self.sort(t)))
            elif w[0] == "alloc":
                na = z3.Const(fresh_name("alloc"), z3.ArraySort(self.S.Ref, z3.BoolSort()))
                r = z3.Const(fresh_name("r"), self.S.Ref)
                st.assume(z3.ForAll([r], z3.Implies(z3.Select(st.alloc, r), z3.Select(na, r))))
                st.alloc = na
        if st.written is not None:
            st.written |= set(written)
        for n in names:
            if n in st.locals:
                v = st.locals[n]
                if v.t[0] in ("tuple",):
                    st.locals[n] = self.fresh(v.t, n)
                elif v.z is not None and v.t[0] not in ("boundmethod", "cls", "func", "module", "modattr", "builtin"):
                    st.locals[n] = Val(v.t, z3.Const(fresh_name(n), self.sort(v.t)))

    def _versioned_syms(self, e, acc, seen):
        if e.get_id() in seen:
            return
        seen.add(e.get_id())
        if z3.is_quantifier(e):
            self._versioned_syms(e.body(), acc, seen)
            return
        if z3.is_app(e):
            if e.num_args() == 0 and e.decl().kind() == z3.Z3_OP_UNINTERPRETED:
                nm = e.decl().name()
                if "!" in nm and nm.startswith(("H_", "G_", "alloc!", "hv_")):
                    acc.add(nm)
            for c in e.children():
                self._versioned_syms(c, acc, seen)

    def drop_dead_facts(self, st: State):
        """at a loop head, after the havoc: assumptions that mention an intermediate version of a heap
        field / ghost global which is neither the entry version nor reachable from the current state
        cannot contribute to any later proof (dropping hypotheses is always sound)."""
        live, seen = set(), set()
        for arr in st.heap.values():
            self._versioned_syms(arr, live, seen)
        for v in st.glob.values():
            if v.z is not None and not isinstance(v.z, tuple):
                self._versioned_syms(v.z, live, seen)
        self._versioned_syms(st.alloc, live, seen)
        def from_val(v, depth=0):
            if not isinstance(v, Val) or depth > 4:
                return
            z = v.z
            if isinstance(z, (tuple, list)):
                for x in z:
                    from_val(x, depth + 1)
            elif z is not None and hasattr(z, "get_id"):
                self._versioned_syms(z, live, seen)
            if isinstance(v.origin, tuple):
                for x in v.origin:
                    if hasattr(x, "get_id") and not callable(x):
                        self._versioned_syms(x, live, seen)
        for fr in st.frames:
            for v in fr.values():
                from_val(v)
        keep = []
        for f in st.pc:
            syms = set()
            self._versioned_syms(f, syms, set())
            if syms <= live:
                keep.append(f)
        st.pc = keep

    def check_invariants(self, spec: LoopSpec, st: State, label: str, node, env=None):
        if label == "step" and spec.invariant:
            self.oblige(st, f"{self.func_key}/loop{self._cur_loop}/must_fail", "must_fail", z3.BoolVal(False), node, (),
                        "vacuity guard: the end of a loop iteration must be reachable under the assumed invariants")
        for i, cl in enumerate(spec.invariant):
            g = self.truth(self.sv(cl.tree, st, env))
            self.oblige(st, f"{self.func_key}/loop{self._cur_loop}/invariant[{i}].{label}", f"invariant.{label}", g,
                        node, cl.tags or self.cur_tags(), f"loop invariant {cl.expr}")

    def assume_invariants(self, spec: LoopSpec, st: State, env=None):
        for cl in spec.invariant:
            st.assume(self.truth(self.sv(cl.tree, st, env)))

    def st_While(self, node, st):
        ordinal = self.next_loop()
        spec = self.loop_spec(ordinal, node)
        if node.orelse:
            raise Unsupported("while/else", node, self.path)
        return self.generic_loop(node, st, spec, ordinal,
                                 head=lambda s: self._while_head(node, s),
                                 body=node.body, step=lambda s: [(s, NORMAL)], names=self.assigned_names(node.body))

    def _while_head(self, node, s):
        """-> list of (state, 'enter' | 'exit' | ('raise', exc))"""
        out = []
        for s2, c in self.ev(node.test, s):
            if isinstance(c, Exc):
                out.append((s2, ("raise", c)))
                continue
            for s3, side in self.split(s2, self.truth(c)):
                out.append((s3, "enter" if side else "exit"))
        return out

    def generic_loop(self, node, st, spec, ordinal, head, body, step, names, after_havoc=None):
        """cut the loop at its invariant.
        head(state) decides enter/exit on an arbitrary iteration (and binds the loop variable);
        step(state) advances ghost iteration state after the body."""
        prev_loop = getattr(self, "_cur_loop", 0)
        self._cur_loop = ordinal
        try:
            # 1. invariant holds on entry
            st.marks = dict(st.marks)
            st.marks["loop"] = st.fork()
            self.check_invariants(spec, st, "init", node)
            if self.discovery:
                # discovery pass: one symbolic iteration from an arbitrary state is enough
                written = set()
            # 2. arbitrary iteration
            hv = st.fork()
            # which locations does an iteration write?  (discovery from the loop head)
            probe = hv.fork()
            from .core import _fresh
            import itertools as _it
            limit = next(_fresh)
            written = self._discover_iteration(probe, head, body, step)
            self.havoc_written(hv, written, names, limit=limit)
            self.drop_dead_facts(hv)
            if after_havoc is not None:
                after_havoc(hv)
            self.assume_invariants(spec, hv)
            results = []
            # search loops: a body that writes nothing (it only inspects the element and may raise / return /
            # break) needs no user invariant: on exit every element went through the body normally
            idx_name = getattr(spec, "idx", "idx")
            pure = (not spec.invariant and not [w for w in written if w[0] in ("heap", "glob")] and idx_name in hv.locals
                    and z3.is_const(hv.locals[idx_name].z) and not self.discovery and after_havoc is not None)
            head_pc_len = len(hv.pc)
            idx_term = hv.locals[idx_name].z if pure else None
            normal_deltas = []
            exits = []
            for s, what in head(hv.fork()):
                if what == "exit":
                    if pure:
                        exits.append(s)
                    else:
                        results.append((s, NORMAL))
                elif what == "enter":
                    for s2, oc in self.exec_block(body, s):
                        if oc[0] in ("normal", "continue") and pure:
                            delta = s2.pc[head_pc_len:]
                            normal_deltas.append(z3.And(*delta) if delta else z3.BoolVal(True))
                        if oc[0] in ("normal", "continue"):
                            for s3, oc3 in step(s2):
                                if oc3[0] == "normal":
                                    self.check_invariants(spec, s3, "step", node)
                                else:
                                    results.append((s3, oc3))
                        elif oc[0] == "break":
                            results.append((s2, NORMAL))
                        else:
                            results.append((s2, oc))
                else:
                    results.append((s, what))
            if pure:
                self.lib.use("a loop whose body writes nothing: on normal exit, every element satisfied the condition under which the body completes normally")
                i = z3.Int(fresh_name("it"))
                P = z3.Or(*normal_deltas) if normal_deltas else z3.BoolVal(False)
                Pi = z3.substitute(P, (idx_term, i))
                for s in exits:
                    # exits happen with idx == number of elements: everything below idx completed normally
                    s.assume(z3.ForAll([i], z3.Implies(z3.And(0 <= i, i < idx_term), Pi)))
                    results.append((s, NORMAL))
            return results
        finally:
            self._cur_loop = prev_loop

    def _discover_iteration(self, probe: State, head, body, step):
        probe.written = set()
        self.discovery += 1
        saved = self.loop_counter
        try:
            # iterate to a fixed point over "what is written" because the first pass starts from
            # the entry state (paths infeasible there may be feasible later): havoc and repeat once.
            for _ in range(2):
                p = probe.fork()
                self.havoc_written(p, set(probe.written), ())
                for s, what in head(p):
                    if what == "enter":
                        for s2, oc in self.exec_block(body, s):
                            if oc[0] in ("normal", "continue"):
                                step(s2)
                self.loop_counter = saved
        finally:
            self.discovery -= 1
            self.loop_counter = saved
        return set(probe.written)

    def st_For(self, node, st):
        ordinal = self.next_loop()
        spec = self.loop_spec(ordinal, node)
        if node.orelse:
            raise Unsupported("for/else", node, self.path)
        return self.lib.for_loop(node, st, spec, ordinal)

    # nested function definitions / classes inside functions are not supported
    def st_FunctionDef(self, node, st):
        raise Unsupported("nested function definition", node, self.path)
