"""pyvc.tables -- C04 (T1): the native-type tables of the parser and of the four back ends agree.

The dict literals are read from the AST of /repo's working tree on every run; each obligation
`sem_X(table_X[n]) == sem_parser(supported_types[n])` is a ground equality discharged by z3 (the
domain is finite: 27 native names x 6 tables, so the enumeration is complete).  The semantics
tables (what `int32_t`, `ctypes.c_uint16`, `single`, struct format `h` ... mean) are trusted.
"""
from __future__ import annotations
import ast, os, time
import z3

FMT = {"c": (1, "char"), "b": (1, "sint"), "B": (1, "uint"), "h": (2, "sint"), "H": (2, "uint"), "i": (4, "sint"), "I": (4, "uint"),
       "q": (8, "sint"), "Q": (8, "uint"), "f": (4, "float"), "d": (8, "float")}
C99 = {"char": (1, "char"), "signed char": (1, "sint"), "unsigned char": (1, "uint"), "int8_t": (1, "sint"), "uint8_t": (1, "uint"), "int16_t": (2, "sint"),
       "uint16_t": (2, "uint"), "int32_t": (4, "sint"), "uint32_t": (4, "uint"), "int64_t": (8, "sint"), "uint64_t": (8, "uint"), "float": (4, "float"), "double": (8, "float")}
CTYPES = {"c_char": (1, "char"), "c_byte": (1, "sint"), "c_ubyte": (1, "uint"), "c_int8": (1, "sint"), "c_uint8": (1, "uint"), "c_int16": (2, "sint"), "c_uint16": (2, "uint"),
          "c_int32": (4, "sint"), "c_uint32": (4, "uint"), "c_int64": (8, "sint"), "c_uint64": (8, "uint"), "c_float": (4, "float"), "c_double": (8, "float"),
          "c_short": (2, "sint"), "c_ushort": (2, "uint"), "c_int": (4, "sint"), "c_uint": (4, "uint")}
MATLAB = {"int8": (1, "sint"), "uint8": (1, "uint"), "int16": (2, "sint"), "uint16": (2, "uint"), "int32": (4, "sint"), "uint32": (4, "uint"), "int64": (8, "sint"),
          "uint64": (8, "uint"), "single": (4, "float"), "double": (8, "float"), "char": (1, "char")}
DESC = {"Int8": (1, "sint"), "Uint8": (1, "uint"), "Int16": (2, "sint"), "Uint16": (2, "uint"), "Int32": (4, "sint"), "Uint32": (4, "uint"), "Int64": (8, "sint"),
        "Uint64": (8, "uint"), "Float": (4, "float"), "Double": (8, "float"), "Char": (1, "char"), "Byte": (1, "uint"), "String": (1, "char")}
KIND_ID = {"char": 0, "sint": 1, "uint": 2, "float": 3}


def _dict_literal(path, name, inside=None):
    tree = ast.parse(open(path).read())
    for node in ast.walk(tree):
        if isinstance(node, (ast.Assign, ast.AnnAssign)):
            tgt = node.targets[0] if isinstance(node, ast.Assign) else node.target
            if isinstance(tgt, ast.Name) and tgt.id == name and isinstance(node.value, ast.Dict):
                return node.value
    return None


def _val(v):
    if isinstance(v, ast.Constant):
        return v.value
    if isinstance(v, ast.Attribute):
        return v.attr
    if isinstance(v, ast.Name):
        return v.id
    if isinstance(v, ast.Call):
        out = {}
        for kw in v.keywords:
            if isinstance(kw.value, ast.Constant):
                out[kw.arg] = kw.value.value
        return out
    return None


def check(tier="quick", seed=0, repo="/repo"):
    t0 = time.time()
    base = os.path.join(repo, "src", "pyrtma")
    res = dict(obligations=0, discharged=0, open={}, discharged_names=[], samples=[], by_backend={}, seconds=0.0, crashes=[], undecided=[],
               assumptions=["semantics of C99 / ctypes / MATLAB / struct-format type names (size, kind) as tabulated in pyvc/tables.py; MATLAB and JavaScript outputs are not executed",
                            "C04 is decided here only for the native-type tables (T1); field order, array lengths, ids, hashes and layouts of the generated texts (T2-T7) are NOT decided by this check"],
               bounded=[])
    st = _dict_literal(os.path.join(base, "parser.py"), "supported_types")
    if st is None:
        res["undecided"].append("parser.supported_types: dict literal not found (source changed shape)")
        return res
    native = {}
    for k, v in zip(st.keys, st.values):
        d = _val(v)
        native[k.value] = (d.get("size"), d.get("format"))
    tables = {
        "c99": (_dict_literal(os.path.join(base, "compilers", "c99.py"), "type_map"), C99),
        "python.type_map": (_dict_literal(os.path.join(base, "compilers", "python.py"), "type_map"), CTYPES),
        "python.desctype_map": (_dict_literal(os.path.join(base, "compilers", "python.py"), "desctype_map"), DESC),
        "matlab": (_dict_literal(os.path.join(base, "compilers", "matlab.py"), "type_map"), MATLAB),
        "parser.get_ctype_cls": (_dict_literal(os.path.join(base, "parser.py"), "type_map"), CTYPES),
    }
    s = z3.Solver()
    for tname, (lit, sem) in tables.items():
        if lit is None:
            res["undecided"].append(f"{tname}: dict literal not found (source changed shape)")
            continue
        tab = {k.value: _val(v) for k, v in zip(lit.keys, lit.values)}
        for n, (size, fmt) in sorted(native.items()):
            name = f"C04/tables/{n}/{tname}-vs-parser"
            res["obligations"] += 1
            want = (size, FMT.get(fmt, (None, None))[1]) if fmt in FMT else None
            got_name = tab.get(n)
            got = sem.get(got_name.split(".")[-1]) if isinstance(got_name, str) else None
            ok = False
            if want is not None and got is not None and FMT[fmt][0] == size:
                # ground obligation, discharged by z3
                a, b = z3.Int("size"), z3.Int("kind")
                s.push()
                s.add(a == got[0], b == KIND_ID[got[1]])
                # char / 8-bit int are the same wire format; the parser calls 'char' format 'c'
                s.add(z3.Not(z3.And(a == want[0], z3.Or(b == KIND_ID[want[1]], z3.And(a == 1, KIND_ID[want[1]] == 0), z3.And(a == 1, b == 0)))))
                ok = s.check() == z3.unsat
                s.pop()
            if ok:
                res["discharged"] += 1
                res["discharged_names"].append(name)
                res["by_backend"]["z3-ground"] = res["by_backend"].get("z3-ground", 0) + 1
                if len(res["samples"]) < 4:
                    res["samples"].append(dict(obligation=name, goal=f"sem({tname}[{n!r}]={got_name!r}) == (size {size}, format {fmt!r})", backend="z3-ground"))
            else:
                res["open"][name] = dict(kind="ground", status="refuted", text=f"{tname}[{n!r}] = {got_name!r} means {got}, the parser's supported_types[{n!r}] is size {size} format {fmt!r}",
                                         reason="ground mismatch", candidates=[], detail=dict(native=n, table=tname, entry=got_name, parser=(size, fmt)))
    # JavaScript: only string-vs-number kind
    js = _dict_literal(os.path.join(base, "compilers", "javascript.py"), "type_map")
    if js is not None:
        tab = {k.value: _val(v) for k, v in zip(js.keys, js.values)}
        for n, (size, fmt) in sorted(native.items()):
            name = f"C04/tables/{n}/javascript-vs-parser"
            res["obligations"] += 1
            want_str = fmt == "c"
            got = tab.get(n)
            ok = got is not None and ((got == '""') == want_str)
            if ok:
                res["discharged"] += 1
                res["discharged_names"].append(name)
                res["by_backend"]["ground"] = res["by_backend"].get("ground", 0) + 1
            else:
                res["open"][name] = dict(kind="ground", status="refuted", text=f"javascript type_map[{n!r}] = {got!r}; parser format {fmt!r}", reason="ground mismatch", candidates=[])
    check_emitters(res, repo)
    check_meta(res, repo)
    # the version hash printed by every back end is the same 32-bit prefix of the parser's digest (shared with C13)
    from . import hashcheck

    def _ok(n, goal):
        res["obligations"] += 1; res["discharged"] += 1; res["discharged_names"].append(n)
        res["by_backend"]["attribute-flow"] = res["by_backend"].get("attribute-flow", 0) + 1

    def _bad(n, text):
        res["obligations"] += 1
        res["open"][n] = dict(kind="ensures", status="refuted", text=text, reason="emit site", candidates=[])
    hashcheck.emit_obligations(res, repo, _ok, _bad, "C04")
    if res["open"]:
        replay_open(res, repo)
    res["seconds"] = round(time.time() - t0, 3)
    return res


# ---------------------------------------------------------------------------------------------------------
# T2 (attribute agreement): every back end prints each kind of model item from the same attributes of the
# parser model.  For each emitter function the set of attributes read on the item parameter (and on the loop
# variable over <item>.fields) is computed from the AST; the property statement fixes which attributes carry the
# wire format (name + value for constants and ids, name / type_name / length for fields, ...).  A back end whose
# emitter does not read a required attribute at all is a refutation; one that reads it through another route
# (not on the parameter) is undecided.
EMITTERS = {
    # kind: (required attributes, {backend file: [candidate function names]})
    "constant": ({"name", "value"}, {"python.py": ["generate_constant"], "c99.py": ["generate_constant"], "javascript.py": ["generate_constant"], "matlab.py": ["generate_constant"]}),
    "string_constant": ({"name", "value"}, {"python.py": ["generate_string_constant"], "c99.py": ["generate_string_constant"], "javascript.py": ["generate_string_constant"],
                                              "matlab.py": ["generate_constant_string", "generate_string_constant"]}),
    "msg_type_id": ({"name", "value"}, {"python.py": ["generate_msg_type_id"], "c99.py": ["generate_msg_type_id"], "javascript.py": ["generate_msg_type_id"], "matlab.py": ["generate_msg_type_id"]}),
    "host_id": ({"name", "value"}, {"python.py": ["generate_host_id"], "c99.py": ["generate_host_id"], "javascript.py": ["generate_host_id"], "matlab.py": ["generate_host_id"]}),
    "module_id": ({"name", "value"}, {"python.py": ["generate_module_id"], "c99.py": ["generate_module_id"], "javascript.py": ["generate_module_id"], "matlab.py": ["generate_module_id"]}),
    "type_alias": ({"name", "type_name"}, {"python.py": ["generate_type_alias"], "c99.py": ["generate_type_alias"], "javascript.py": ["generate_type_alias"], "matlab.py": ["generate_type_alias"]}),
    "struct": ({"name", "fields"}, {"python.py": ["generate_struct"], "c99.py": ["generate_struct"], "javascript.py": ["generate_obj"], "matlab.py": ["generate_struct"]}),
    "message": ({"name", "fields"}, {"python.py": ["generate_msg_def"], "c99.py": ["generate_struct"], "javascript.py": ["generate_obj"], "matlab.py": ["generate_struct"]}),
}
FIELD_REQUIRED = {"name", "type_name", "length"}


def _attr_reads(fdef):
    """attributes read on the first non-self parameter, and on loop variables over <param>.fields"""
    params = [a.arg for a in fdef.args.args if a.arg != "self"]
    if not params:
        return None, None, set()
    item = params[0]
    on_item, on_field, anywhere = set(), set(), set()
    fieldvars = set()
    # locals that stand for the field list: aliases (all fields) and filtered copies (some fields dropped)
    aliases, filtered = set(), set()
    for n in ast.walk(fdef):
        if isinstance(n, ast.Assign) and len(n.targets) == 1 and isinstance(n.targets[0], ast.Name):
            v = n.value
            vs = ast.unparse(v)
            if f"{item}.fields" not in vs:
                continue
            if isinstance(v, (ast.ListComp, ast.GeneratorExp)) and any(g.ifs for g in v.generators):
                filtered.add(n.targets[0].id)
            elif isinstance(v, ast.Call) and isinstance(v.func, ast.Name) and v.func.id == "filter":
                filtered.add(n.targets[0].id)
            elif vs in (f"{item}.fields", f"list({item}.fields)", f"tuple({item}.fields)") or (isinstance(v, (ast.ListComp, ast.GeneratorExp)) and not any(g.ifs for g in v.generators)):
                aliases.add(n.targets[0].id)
    for n in ast.walk(fdef):
        it = None
        if isinstance(n, ast.For):
            it, tgt = n.iter, n.target
        elif isinstance(n, ast.comprehension):
            it, tgt = n.iter, n.target
            if n.ifs and f"{item}.fields" in ast.unparse(it):
                filtered.add("<comprehension>")
        if it is not None:
            # for field in item.fields / enumerate(item.fields) / an alias of it
            src_ = ast.unparse(it)
            names_in = {x.id for x in ast.walk(it) if isinstance(x, ast.Name)}
            if f"{item}.fields" in src_ or (names_in & aliases):
                for t in ast.walk(tgt):
                    if isinstance(t, ast.Name):
                        fieldvars.add(t.id)
            elif names_in & filtered:
                fdef._drops_fields = ast.unparse(it)
    for n in ast.walk(fdef):
        if isinstance(n, ast.Attribute):
            anywhere.add(n.attr)
            if isinstance(n.value, ast.Name):
                if n.value.id == item:
                    on_item.add(n.attr)
                elif n.value.id in fieldvars:
                    on_field.add(n.attr)
    return on_item, on_field, anywhere


def check_emitters(res, repo):
    base = os.path.join(repo, "src", "pyrtma", "compilers")
    funcs = {}
    for fn in ("python.py", "c99.py", "javascript.py", "matlab.py"):
        try:
            tree = ast.parse(open(os.path.join(base, fn)).read())
        except (OSError, SyntaxError) as ex:
            res["crashes"].append(f"{fn}: {ex}")
            return
        funcs[fn] = {n.name: n for n in ast.walk(tree) if isinstance(n, ast.FunctionDef)}
    for kind, (required, where) in EMITTERS.items():
        for fn, cands in where.items():
            name = f"C04/emit/{kind}/{fn}"
            res["obligations"] += 1
            fd = next((funcs[fn][c] for c in cands if c in funcs[fn]), None)
            if fd is None:
                res["undecided"].append(f"{name}: emitter {cands} not found (source changed shape)")
                continue
            on_item, on_field, anywhere = _attr_reads(fd)
            if on_item is None:
                res["undecided"].append(f"{name}: emitter has no item parameter")
                continue
            missing = required - on_item
            fmissing = (FIELD_REQUIRED - on_field) if kind in ("struct", "message") else set()
            if kind in ("struct", "message") and fmissing and getattr(fd, "_drops_fields", None):
                res["open"][name] = dict(kind="ensures", status="refuted", reason="attribute agreement", candidates=[],
                                         text=f"{fn}:{fd.name} prints the fields of a FILTERED copy of the model's field list ({fd._drops_fields}): some fields of the "
                                              f"struct are not printed, the other outputs print every field in order")
                continue
            gone = {a for a in missing | fmissing if a not in anywhere}
            if gone:
                res["open"][name] = dict(kind="ensures", status="refuted", reason="attribute agreement", candidates=[],
                                         text=f"{fn}:{fd.name} prints a {kind} without reading {sorted(gone)} of the parser model (reads {sorted(on_item)}"
                                              + (f", per field {sorted(on_field)}" if kind in ("struct", "message") else "") + f"); the other outputs are printed from {sorted(required)}")
            elif missing or fmissing:
                res["undecided"].append(f"{name}: {sorted(missing | fmissing)} is read, but not on the item parameter / field loop variable")
            else:
                res["discharged"] += 1
                res["discharged_names"].append(name)
                res["by_backend"]["attribute-flow"] = res["by_backend"].get("attribute-flow", 0) + 1
                if sum(1 for s_ in res["samples"] if s_.get("backend") == "attribute-flow") < 2:
                    res["samples"].append(dict(obligation=name, goal=f"{fd.name} reads {sorted(required)} of the model item" + (f" and {sorted(FIELD_REQUIRED)} of every field" if kind in ("struct", "message") else ""),
                                               backend="attribute-flow"))


def replay_open(res, repo):
    """compile one definition closure with the real compiler into the four languages and compare the outputs (replay/compile_replay.py, gcc for the C side)"""
    import subprocess
    script = os.path.join(os.path.dirname(os.path.dirname(os.path.abspath(__file__))), "replay", "compile_replay.py")
    try:
        p = subprocess.run(["/venv/bin/python", script, repo], capture_output=True, text=True, timeout=300)
    except Exception as ex:
        return
    lines = [l for l in p.stdout.splitlines() if l.startswith("C04-REPLAY-VIOLATION:")]
    for name, info in res["open"].items():
        if "define-name-and-value" in name:
            mine = [l for l in lines if "does not compile" in l or "message id" in l or "constant " in l or "version hash" in l]
        elif "/emit/constant" in name or "string_constant" in name:
            mine = [l for l in lines if "constant " in l]
        elif "msg_type_id" in name or "host_id" in name or "module_id" in name:
            mine = [l for l in lines if "message id" in l]
        elif "/tables/" in name or "/emit/struct" in name or "/emit/message" in name or "type_alias" in name or "/python-class/" in name:
            mine = [l for l in lines if "sizeof" in l or "offsetof" in l or "does not compile" in l or "field list" in l]
        else:
            mine = [l for l in lines if "version hash" in l]
        info["verifier_output"] = info["text"]
        if mine:
            info["reproduced"] = True
            info["replay_how"] = f"/venv/bin/python replay/compile_replay.py {repo}"
            info["text"] = info["text"] + "\nreplayed with the real compiler (and gcc): " + " | ".join(mine[:4])


# ---------------------------------------------------------------------------------------------------------
# MessageMeta.__new__ (message_base.py) turns the descriptors of a generated class body into the ctypes _fields_ list: the link between the text
# the Python back end prints and the byte layout of the class.  Contract (dataflow, decided on the real AST):
#   (M1) every class-body entry whose value has a `_ctype` attribute becomes the field ("_" + key, value._ctype), whatever the key looks like:
#        on the path to the hasattr test no condition on the key other than `key == "_fields_"` is taken;
#   (M2) the field name is "_" + key and the field type is that value's _ctype.
def check_meta(res, repo):
    name = "C04/python-class/every-descriptor-becomes-a-ctypes-field"
    res["obligations"] += 1
    try:
        tree = ast.parse(open(os.path.join(repo, "src", "pyrtma", "message_base.py")).read())
    except (OSError, SyntaxError) as ex:
        res["crashes"].append(f"message_base.py: {ex}")
        return
    cls = next((n for n in tree.body if isinstance(n, ast.ClassDef) and n.name == "MessageMeta"), None)
    fd = next((n for n in (cls.body if cls else []) if isinstance(n, ast.FunctionDef) and n.name == "__new__"), None)
    if fd is None or len(fd.args.args) < 4:
        res["undecided"].append(f"{name}: MessageMeta.__new__(cls, name, bases, namespace) not found")
        return
    ns = fd.args.args[3].arg
    loops = [n for n in fd.body if isinstance(n, ast.For) and ns in {x.id for x in ast.walk(n.iter) if isinstance(x, ast.Name)}]
    if len(loops) != 1:
        res["undecided"].append(f"{name}: expected one loop over {ns}")
        return
    loop = loops[0]
    if isinstance(loop.target, ast.Name):
        keyv, valexprs = loop.target.id, {f"{ns}[{loop.target.id}]"}
    elif isinstance(loop.target, ast.Tuple) and len(loop.target.elts) == 2 and all(isinstance(x, ast.Name) for x in loop.target.elts):
        keyv = loop.target.elts[0].id
        valexprs = {loop.target.elts[1].id, f"{ns}[{keyv}]"}
    else:
        res["undecided"].append(f"{name}: loop target {ast.unparse(loop.target)}")
        return

    def is_probe(t):
        return (isinstance(t, ast.Call) and isinstance(t.func, ast.Name) and t.func.id == "hasattr" and len(t.args) == 2 and ast.unparse(t.args[0]) in valexprs
                and isinstance(t.args[1], ast.Constant) and t.args[1].value == "_ctype")

    def is_fields_key(t, neg=False):
        return (isinstance(t, ast.Compare) and len(t.ops) == 1 and isinstance(t.ops[0], ast.NotEq if neg else ast.Eq) and
                {ast.unparse(t.left), ast.unparse(t.comparators[0])} == {keyv, "'_fields_'"})
    guards = []          # conditions on the key that exclude an entry from the probe
    found = []

    def walk(stmts, excl):
        for st in stmts:
            if isinstance(st, ast.If):
                if is_probe(st.test):
                    found.append((st, list(excl)))
                    walk(st.orelse, excl)
                elif is_fields_key(st.test):
                    walk(st.orelse, excl)          # the _fields_ entry itself is not a descriptor
                    # statements after an if that does not leave the iteration are reached by every key
                elif is_fields_key(st.test, neg=True):
                    walk(st.body, excl)
                else:
                    names = {x.id for x in ast.walk(st.test) if isinstance(x, ast.Name)}
                    if keyv in names or names & {v for v in valexprs if v.isidentifier()}:
                        leaves = any(isinstance(x, (ast.Continue, ast.Break, ast.Return)) for x in ast.walk(ast.Module(body=st.body, type_ignores=[])))
                        walk(st.body, excl)                                   # entries satisfying the test
                        walk(st.orelse, excl + [ast.unparse(st.test)])        # the probe in the else arm excludes entries satisfying the test
                        if leaves:
                            excl = excl + [ast.unparse(st.test)]              # ... and so does everything after an arm that leaves the iteration
                    else:
                        walk(st.body, excl); walk(st.orelse, excl)
    walk(loop.body, [])
    if not found:
        res["undecided"].append(f"{name}: no hasattr(<entry>, '_ctype') test found in the loop over {ns}")
        return
    st, excl = found[0]
    if excl:
        res["open"][name] = dict(kind="ensures", status="refuted", reason="dataflow", candidates=[],
                                 text=f"MessageMeta.__new__ does not probe class-body entries for which `{excl[0]}` holds: a field descriptor with such a name never becomes a ctypes field, so the "
                                      "generated Python class is smaller than the C struct the same definition produces and every later offset shifts")
        return
    app = [c for c in ast.walk(ast.Module(body=st.body, type_ignores=[])) if isinstance(c, ast.Call) and isinstance(c.func, ast.Attribute) and c.func.attr == "append"]
    defs = {n.targets[0].id: ast.unparse(n.value) for n in ast.walk(ast.Module(body=st.body, type_ignores=[])) if isinstance(n, ast.Assign) and isinstance(n.targets[0], ast.Name)}
    good = False
    for c in app:
        if len(c.args) == 1 and isinstance(c.args[0], ast.Tuple) and len(c.args[0].elts) == 2:
            a, b = (ast.unparse(x) for x in c.args[0].elts)
            a, b = defs.get(a, a), defs.get(b, b)
            if a in (f"'_' + {keyv}", f'"_" + {keyv}') and any(b == f"{v}._ctype" for v in valexprs):
                good = True
    if good:
        res["discharged"] += 1
        res["discharged_names"].append(name)
        res["by_backend"]["dataflow"] = res["by_backend"].get("dataflow", 0) + 1
        res["samples"].append(dict(obligation=name, goal="every class-body entry with a _ctype attribute is appended to _fields_ as ('_' + key, entry._ctype); no condition on the key's spelling guards it",
                                   backend="dataflow"))
    else:
        res["undecided"].append(f"{name}: the probe's branch does not append ('_' + {keyv}, <entry>._ctype)")
