"""pyvc.tables -- C04 (T1): the native-type tables of the parser and of the four back ends agree.

The dict literals are read from the AST of /repo's working tree on every run; each obligation
`sem_X(table_X[n]) == sem_parser(supported_types[n])` is a ground equality discharged by z3 (the
domain is finite: 27 native names x 6 tables, so the enumeration is complete).  The semantics
tables (what `int32_t`, `ctypes.c_uint16`, `single`, struct format `h` ... mean) are trusted.
"""
from __future__ import annotations
import ast, os, time
import z3

FMT = {"c": (1, "char"), "b": (1, "sint"), "B": (1, "uint"), "h": (2, "sint"), "H": (2, "uint"), "i": (4, "sint"), "I": (4, "uint"),
       "q": (8, "sint"), "Q": (8, "uint"), "f": (4, "float"), "d": (8, "float")}
C99 = {"char": (1, "char"), "signed char": (1, "sint"), "unsigned char": (1, "uint"), "int8_t": (1, "sint"), "uint8_t": (1, "uint"), "int16_t": (2, "sint"),
       "uint16_t": (2, "uint"), "int32_t": (4, "sint"), "uint32_t": (4, "uint"), "int64_t": (8, "sint"), "uint64_t": (8, "uint"), "float": (4, "float"), "double": (8, "float")}
CTYPES = {"c_char": (1, "char"), "c_byte": (1, "sint"), "c_ubyte": (1, "uint"), "c_int8": (1, "sint"), "c_uint8": (1, "uint"), "c_int16": (2, "sint"), "c_uint16": (2, "uint"),
          "c_int32": (4, "sint"), "c_uint32": (4, "uint"), "c_int64": (8, "sint"), "c_uint64": (8, "uint"), "c_float": (4, "float"), "c_double": (8, "float"),
          "c_short": (2, "sint"), "c_ushort": (2, "uint"), "c_int": (4, "sint"), "c_uint": (4, "uint")}
MATLAB = {"int8": (1, "sint"), "uint8": (1, "uint"), "int16": (2, "sint"), "uint16": (2, "uint"), "int32": (4, "sint"), "uint32": (4, "uint"), "int64": (8, "sint"),
          "uint64": (8, "uint"), "single": (4, "float"), "double": (8, "float"), "char": (1, "char")}
DESC = {"Int8": (1, "sint"), "Uint8": (1, "uint"), "Int16": (2, "sint"), "Uint16": (2, "uint"), "Int32": (4, "sint"), "Uint32": (4, "uint"), "Int64": (8, "sint"),
        "Uint64": (8, "uint"), "Float": (4, "float"), "Double": (8, "float"), "Char": (1, "char"), "Byte": (1, "uint"), "String": (1, "char")}
KIND_ID = {"char": 0, "sint": 1, "uint": 2, "float": 3}


def _dict_literal(path, name, inside=None):
    tree = ast.parse(open(path).read())
    for node in ast.walk(tree):
        if isinstance(node, (ast.Assign, ast.AnnAssign)):
            tgt = node.targets[0] if isinstance(node, ast.Assign) else node.target
            if isinstance(tgt, ast.Name) and tgt.id == name and isinstance(node.value, ast.Dict):
                return node.value
    return None


def _val(v):
    if isinstance(v, ast.Constant):
        return v.value
    if isinstance(v, ast.Attribute):
        return v.attr
    if isinstance(v, ast.Name):
        return v.id
    if isinstance(v, ast.Call):
        out = {}
        for kw in v.keywords:
            if isinstance(kw.value, ast.Constant):
                out[kw.arg] = kw.value.value
        return out
    return None


def check(tier="quick", seed=0, repo="/repo"):
    t0 = time.time()
    base = os.path.join(repo, "src", "pyrtma")
    res = dict(obligations=0, discharged=0, open={}, discharged_names=[], samples=[], by_backend={}, seconds=0.0, crashes=[], undecided=[],
               assumptions=["semantics of C99 / ctypes / MATLAB / struct-format type names (size, kind) as tabulated in pyvc/tables.py; MATLAB and JavaScript outputs are not executed",
                            "C04 is decided here only for the native-type tables (T1); field order, array lengths, ids, hashes and layouts of the generated texts (T2-T7) are NOT decided by this check"],
               bounded=[])
    st = _dict_literal(os.path.join(base, "parser.py"), "supported_types")
    if st is None:
        res["undecided"].append("parser.supported_types: dict literal not found (source changed shape)")
        return res
    native = {}
    for k, v in zip(st.keys, st.values):
        d = _val(v)
        native[k.value] = (d.get("size"), d.get("format"))
    tables = {
        "c99": (_dict_literal(os.path.join(base, "compilers", "c99.py"), "type_map"), C99),
        "python.type_map": (_dict_literal(os.path.join(base, "compilers", "python.py"), "type_map"), CTYPES),
        "python.desctype_map": (_dict_literal(os.path.join(base, "compilers", "python.py"), "desctype_map"), DESC),
        "matlab": (_dict_literal(os.path.join(base, "compilers", "matlab.py"), "type_map"), MATLAB),
        "parser.get_ctype_cls": (_dict_literal(os.path.join(base, "parser.py"), "type_map"), CTYPES),
    }
    s = z3.Solver()
    for tname, (lit, sem) in tables.items():
        if lit is None:
            res["undecided"].append(f"{tname}: dict literal not found (source changed shape)")
            continue
        tab = {k.value: _val(v) for k, v in zip(lit.keys, lit.values)}
        for n, (size, fmt) in sorted(native.items()):
            name = f"C04/tables/{n}/{tname}-vs-parser"
            res["obligations"] += 1
            want = (size, FMT.get(fmt, (None, None))[1]) if fmt in FMT else None
            got_name = tab.get(n)
            got = sem.get(got_name.split(".")[-1]) if isinstance(got_name, str) else None
            ok = False
            if want is not None and got is not None and FMT[fmt][0] == size:
                # ground obligation, discharged by z3
                a, b = z3.Int("size"), z3.Int("kind")
                s.push()
                s.add(a == got[0], b == KIND_ID[got[1]])
                # char / 8-bit int are the same wire format; the parser calls 'char' format 'c'
                s.add(z3.Not(z3.And(a == want[0], z3.Or(b == KIND_ID[want[1]], z3.And(a == 1, KIND_ID[want[1]] == 0), z3.And(a == 1, b == 0)))))
                ok = s.check() == z3.unsat
                s.pop()
            if ok:
                res["discharged"] += 1
                res["discharged_names"].append(name)
                res["by_backend"]["z3-ground"] = res["by_backend"].get("z3-ground", 0) + 1
                if len(res["samples"]) < 4:
                    res["samples"].append(dict(obligation=name, goal=f"sem({tname}[{n!r}]={got_name!r}) == (size {size}, format {fmt!r})", backend="z3-ground"))
            else:
                res["open"][name] = dict(kind="ground", status="refuted", text=f"{tname}[{n!r}] = {got_name!r} means {got}, the parser's supported_types[{n!r}] is size {size} format {fmt!r}",
                                         reason="ground mismatch", candidates=[], detail=dict(native=n, table=tname, entry=got_name, parser=(size, fmt)))
    # JavaScript: only string-vs-number kind
    js = _dict_literal(os.path.join(base, "compilers", "javascript.py"), "type_map")
    if js is not None:
        tab = {k.value: _val(v) for k, v in zip(js.keys, js.values)}
        for n, (size, fmt) in sorted(native.items()):
            name = f"C04/tables/{n}/javascript-vs-parser"
            res["obligations"] += 1
            want_str = fmt == "c"
            got = tab.get(n)
            ok = got is not None and ((got == '""') == want_str)
            if ok:
                res["discharged"] += 1
                res["discharged_names"].append(name)
                res["by_backend"]["ground"] = res["by_backend"].get("ground", 0) + 1
            else:
                res["open"][name] = dict(kind="ground", status="refuted", text=f"javascript type_map[{n!r}] = {got!r}; parser format {fmt!r}", reason="ground mismatch", candidates=[])
    res["seconds"] = round(time.time() - t0, 3)
    return res
