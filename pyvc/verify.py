"""pyvc.verify -- compose the engine; generate the obligations of one function against its contract."""
from __future__ import annotations
import ast, time
import z3
from .core import *
from .engine import Engine as EngineBase, Unsupported
from .expr import ExprMixin
from .stmt import StmtMixin, NORMAL
from .calls import CallMixin
from .lib import Lib
from .lib_calls import LibCalls
from .lib_loops import LibLoops, WithBody
from .spec import Registry, Contract, LoopSpec
from .source import Source


class FullLib(Lib, LibCalls, LibLoops):
    pass


class Engine(ExprMixin, StmtMixin, CallMixin, EngineBase):
    def __init__(self, src, reg, sorts=None, opts=None):
        super().__init__(src, reg, sorts, opts)
        self.lib = FullLib(self)
        self._loop_ord = {}

    # ------------------------------------------------------------------ loops: syntactic ordinals
    def index_loops(self, fdef):
        self._loop_ord = {}
        n = 0
        for node in ast.walk(fdef):
            pass
        def visit(nodes):
            nonlocal n
            for nd in nodes:
                if isinstance(nd, (ast.For, ast.While)):
                    n += 1
                    self._loop_ord[(nd.lineno, nd.col_offset)] = n
                for field in ("body", "orelse", "finalbody", "handlers"):
                    sub = getattr(nd, field, None)
                    if isinstance(sub, list):
                        visit(sub)
        visit(fdef.body)

    def next_loop(self):
        return 0

    def st_For(self, node, st):
        ordinal = self._loop_ord.get((node.lineno, node.col_offset), 0) if len(st.frames) == 1 else 0
        spec = self.contract.loops.get(ordinal, LoopSpec()) if (self.contract and ordinal) else LoopSpec()
        if node.orelse and not isinstance(node.iter, (ast.Tuple, ast.List)):
            raise Unsupported("for/else over a non-literal sequence", node, self.path)
        return self.lib.for_loop(node, st, spec, ordinal)

    def st_While(self, node, st):
        ordinal = self._loop_ord.get((node.lineno, node.col_offset), 0) if len(st.frames) == 1 else 0
        spec = self.contract.loops.get(ordinal, LoopSpec()) if (self.contract and ordinal) else LoopSpec()
        if node.orelse:
            raise Unsupported("while/else", node, self.path)
        return self.generic_loop(node, st, spec, ordinal, head=lambda s: self._while_head(node, s),
                                 body=node.body, step=lambda s: [(s, NORMAL)], names=self.assigned_names(node.body))

    def st_WithBody(self, node, st):
        """the with-body, executed in the caller's frame at the generator's yield"""
        gen = st.frames.pop()
        out = []
        results = [(st, None)]
        if node.optional_vars is not None:
            if node.value is None:
                v = self.const_val(None)
                results = [(st, v)]
            else:
                st.frames.append(gen)
                results = self.ev(node.value, st)
                for s, _ in results:
                    s.frames.pop()
        for s, v in results:
            if isinstance(v, Exc):
                s.frames.append(gen)
                out.append((s, ("raise", v)))
                continue
            if node.optional_vars is not None:
                for s2, oc in self.assign_lvalue(node.optional_vars, v, s):
                    pass
            for s2, oc in self.exec_block(node.body, s):
                s2.frames.append(dict(gen))
                if oc[0] in ("normal", "raise"):
                    out.append((s2, oc))
                else:
                    s2.marks = dict(s2.marks)
                    s2.marks["__pending__"] = oc
                    out.append((s2, NORMAL))
        return out

    # ------------------------------------------------------------------ ghost statements
    def exec_ghost(self, stmts_list, st):
        self.ghost_mode += 1
        try:
            states = [st]
            for body in stmts_list:
                nxt = []
                for s in states:
                    for s2, oc in self.exec_block(body, s):
                        if oc[0] == "raise" and (self.discovery or not self.feasible(s2)):
                            continue
                        if oc[0] != "normal":
                            raise Unsupported(f"ghost statement ended with {oc[0]} {oc[1] if len(oc) > 1 else ''}")
                        nxt.append(s2)
                states = nxt
            return states
        finally:
            self.ghost_mode -= 1

    # ------------------------------------------------------------------ one function
    def verify(self, key: str):
        t0 = time.time()
        con = self.reg.contracts[key]
        mod, fdef = self.src.function(key)
        self.mod, self.func_key, self.contract = mod, key, con
        self.func_line0 = fdef.lineno
        self.obligations = []
        self.index_loops(fdef)
        qn = key.split(":")[1]
        cls = qn.split(".")[0] if "." in qn else None
        st = State()
        st.alloc = z3.Const("alloc0", z3.ArraySort(self.S.Ref, z3.BoolSort()))
        st.assume(z3.Not(z3.Select(st.alloc, self.S.null)))
        st.assume(self.lib.isascii(z3.StringVal("")))
        # parameters
        a = fdef.args
        names = [x.arg for x in a.posonlyargs + a.args + a.kwonlyargs]
        for n in names:
            if n in getattr(con, "const_params", {}):
                cv = con.const_params[n]
                if isinstance(cv, tuple):
                    items = tuple(self.const_val(x) for x in cv)
                    st.locals[n] = Val(("tuple",) + tuple(i.t for i in items), items)
                else:
                    st.locals[n] = self.const_val(cv)
                continue
            if n == "self" and n not in con.params:
                t = ref(cls)
            elif n in con.params:
                t = con.params[n]
            else:
                raise Unsupported(f"parameter {n} of {key} has no type in the contract")
            v = Val(t, z3.Const(f"p_{n}", self.sort(t))) if t[0] != "tuple" else self.fresh(t, n)
            st.locals[n] = v
            if t[0] == "ref":
                self.assume_type(st, v)
            if t[0] == "ref" and n not in getattr(con, "nullable", ()):
                st.assume(v.z != self.S.null)
                st.assume(z3.Select(st.alloc, v.z))
        if a.vararg or a.kwarg:
            raise Unsupported(f"*args/**kwargs in the signature of {key}")
        if self.S.scope is not None:
            # finite-scope search: objects are well typed (reference fields hold instances of their declared class)
            for cname, d in list(self.reg.classes.items()):
                for fname, ft in list(d.fields.items()) + list(d.ghost.items()):
                    if ft[0] != "ref":
                        continue
                    arr = self.heap_arr(st, cname, fname, ft)
                    for r in self.S.ref_consts[1:]:
                        owner = z3.Or(*[self.dtype_fn(r) == self.class_id(c) for c in sorted(set(self.subclasses_of(cname)) | {cname})])
                        st.assume(z3.Implies(owner, self.is_instance_z(z3.Select(arr, r), ft[1])))
        st.old = st.fork()
        # requires
        for cl in con.requires + con.assume_on_entry:
            st.assume(self.truth(self.sv(cl.tree, st)))
        st.old.pc = list(st.pc)
        entry = st.fork()
        self.entry_state = entry
        outcomes = []
        decos = [d.id if isinstance(d, ast.Name) else getattr(d, "attr", "") for d in fdef.decorator_list]
        for s in self.exec_ghost(con.ghost_entry, st):
            s.old = entry.old
            if "requires_connection" in decos:
                # the decorator's wrapper: `if not self.connected: raise NotConnectedError`
                self.lib.use("@requires_connection: raises NotConnectedError unless self.connected, then calls the function")
                cz = self.truth(self.load_field(s, s.locals["self"], "_connected"))
                for s2, ok in self.split(s, cz):
                    if ok:
                        outcomes.extend(self.exec_block(fdef.body, s2))
                    else:
                        outcomes.append((s2, ("raise", Exc("NotConnectedError", "requires_connection", fdef.lineno))))
            else:
                outcomes.extend(self.exec_block(fdef.body, s))
        n_normal = 0
        for s, oc in outcomes:
            if oc[0] in ("normal", "return"):
                n_normal += 1
                for s2 in self.exec_ghost(con.ghost_exit, s):
                    self.check_post(con, s2, oc[1] if oc[0] == "return" else None, fdef)
            elif oc[0] == "raise":
                self.check_raise(con, s, oc[1], fdef)
            else:
                raise Unsupported(f"{oc[0]} outside a loop in {key}")
        self.stats = dict(paths=len(outcomes), normal_paths=n_normal, raise_paths=[oc[1].cls + "@" + str(oc[1].lineno) for s, oc in outcomes if oc[0] == "raise"][:8], prune_checks=self.nprune,
                          seconds_symexec=round(time.time() - t0, 3))
        return self.obligations

    def check_post(self, con, st, retval, fdef):
        env = {}
        if con.returns is not None:
            rv = retval if retval is not None else self.const_val(None)
            env["result"] = self.coerce(self.adapt_empty(rv, con.returns), con.returns, fdef)
        self.oblige(st, f"{self.func_key}/must_fail", "must_fail", z3.BoolVal(False), fdef, (), "vacuity guard: `False` at a normal exit must NOT be provable on at least one path")
        for i, cl in enumerate(con.ensures):
            g = self.truth(self.sv(cl.tree, st, env))
            self.oblige(st, f"{self.func_key}/ensures[{i}]", "ensures", g, fdef, cl.tags or con.tags, cl.expr)
        self.check_frame(con, st, fdef, "normal")

    def check_raise(self, con, st, exc: Exc, fdef):
        for ecls, posts in con.raises.items():
            if self.is_subclass(exc.cls, ecls):
                for i, cl in enumerate(posts):
                    g = self.truth(self.sv(cl.tree, st))
                    self.oblige(st, f"{self.func_key}/raises[{ecls}][{i}]", "raises", g, exc.lineno or fdef, cl.tags or con.tags, cl.expr)
                self.check_frame(con, st, fdef, ecls)
                return
        if any(self.is_subclass(exc.cls, a) for a in con.allow_escape):
            return
        rel = f"+{exc.lineno - self.func_line0}" if exc.lineno else "?"
        self.oblige(st, f"{self.func_key}/noraise[{exc.cls}]@{rel}", "safe." + exc.cls, z3.BoolVal(False), exc.lineno or fdef,
                    con.tags, f"no uncaught {exc.cls} ({exc.info})")

    def check_frame(self, con, st, fdef, label):
        allowed = set()
        for m in con.modifies:
            if m.startswith("glob:"):
                allowed.add(("glob", m[5:]))
                continue
            c, f = m.split(".")
            if c.startswith("$"):
                allowed.add(("heap", c, f))
                continue
            d0 = self.class_decl(c)
            fl = (list(d0.fields) + list(d0.ghost)) if f == "*" else [f]
            for f2 in fl:
                fd = self.field_decl(c, f2)
                hk = self.hkey(fd[0], f2, fd[2])
                allowed.add(("heap",) + hk)
                allowed.add(("heap", hk[0], hk[1] + "$ascii"))
        old = st.old
        r = z3.Const("r_frame", self.S.Ref)
        for (c, f), arr in st.heap.items():
            if ("heap", c, f) in allowed:
                continue
            oarr = old.heap.get((c, f))
            if oarr is None:
                oarr = self.heap_arr(old, c, f, self.heap_types[(c, f)])
            if arr.eq(oarr):
                continue
            g = z3.ForAll([r], z3.Implies(z3.Select(old.alloc, r), z3.Select(arr, r) == z3.Select(oarr, r)))
            self.oblige(st, f"{self.func_key}/frame[{c}.{f}]", "frame", g, fdef, con.tags,
                        f"{c}.{f} of pre-existing objects is not in the modifies clause and must be unchanged")
        for name, v in st.glob.items():
            if ("glob", name) in allowed:
                continue
            ov = old.glob.get(name)
            if ov is None:
                ov = self.global_val(old, name) if name in self.reg.globals else None
            if ov is None or v.z is None or (ov.z is not None and v.z.eq(ov.z)):
                continue
            self.oblige(st, f"{self.func_key}/frame[glob:{name}]", "frame", v.z == ov.z, fdef, con.tags,
                        f"global {name} is not in the modifies clause and must be unchanged")
