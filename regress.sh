#!/bin/bash
# regenerate baselines + evidence for every claimed property, both tiers (run on the clean tree only)
cd /verif
mkdir -p replays/regress
for t in ${TIERS:-thorough quick}; do
for p in ${PROPS:-C01 C02 C03 C04 C05 C06 C07 C08 C09 C11 C12 C13 C14 C16 C17 C18 C19}; do
  /usr/bin/time -f "%e s" ./check $p $t --write-baseline > replays/regress/$p.$t.log 2>&1
  echo "$p $t rc=$? $(tail -1 replays/regress/$p.$t.log)" >> replays/regress/summary.txt
done; done
echo ALLDONE >> replays/regress/summary.txt
