"""replay for C04 refutations: compile one definition closure with the REAL compiler of the tree given as argv[1] into Python, C, JavaScript and MATLAB
and compare what the four outputs say: constants (incl. constant expressions), message ids, version hashes, and - with gcc - sizeof / offsetof of every
struct laid out by a C compiler from the generated header against the generated Python classes.  One line per disagreement.  Run under /venv/bin/python."""
import os, sys, re, subprocess, tempfile, shutil, importlib.util, ctypes, logging, io, contextlib

repo = sys.argv[1]
sys.path.insert(0, os.path.join(repo, "src"))
logging.disable(logging.CRITICAL)

DEFS = """
constants:
    N_A: 3
    N_B: 5
    N_SUM: N_A + N_B
    N_PROD: N_SUM * 4
    N_MIX: 2 + N_A * 2
    A_CONSTANT_WITH_A_VERY_LONG_NAME_THAT_FILLS_THE_COLUMNS_X: 5

aliases:
    COUNT_T: uint16

struct_defs:
    SAMPLE:
        fields:
            t: double
            _rsvd: double
            v: float[N_A]
            flags: signed char
            k: unsigned short

message_defs:
    PING:
        id: 2001
        fields: null
    CURSOR_FEEDBACK_DECODER_OUTPUT_VELOCITY_ESTIMATE_MSG:
        id: 2003
        fields: null
    BLOCK:
        id: 2002
        fields:
            seq: COUNT_T
            n: long
            big: long long
            samples: SAMPLE[N_B]
            label: char[12]
            u: uint8
"""

tmp = tempfile.mkdtemp(prefix="c04r_")
bad = []
checked = []
try:
    f = os.path.join(tmp, "defs.yaml")
    open(f, "w").write(DEFS)
    out = os.path.join(tmp, "out")
    os.makedirs(out)
    from pyrtma.compile import compile as rtma_compile
    with contextlib.redirect_stdout(io.StringIO()):
        rtma_compile([f], out_dir=out, out_name="m", python=True, c_lang=True, javascript=True, matlab=True)
    files = {os.path.splitext(n)[1]: os.path.join(r, n) for r, _, ns in os.walk(out) for n in ns}
    spec = importlib.util.spec_from_file_location("m_gen", files[".py"])
    mod = importlib.util.module_from_spec(spec)
    sys.modules["m_gen"] = mod
    spec.loader.exec_module(mod)
    js = open(files[".js"]).read()
    ml = open(files[".m"]).read()
    hdr = open(files[".h"]).read()
    consts = ["N_A", "N_B", "N_SUM", "N_PROD", "N_MIX", "A_CONSTANT_WITH_A_VERY_LONG_NAME_THAT_FILLS_THE_COLUMNS_X"]
    msgs = {"PING": 2001, "BLOCK": 2002, "CURSOR_FEEDBACK_DECODER_OUTPUT_VELOCITY_ESTIMATE_MSG": 2003}
    structs = {"SAMPLE": "SAMPLE", "BLOCK": "MDF_BLOCK"}
    # ---- C side through gcc
    cvals = {}
    if shutil.which("gcc"):
        prog = ['#include <stdio.h>', '#include <stddef.h>', f'#include "{files[".h"]}"', 'int main(void){']
        for c in consts:
            prog.append(f'printf("const {c} %ld\\n", (long)({c}));')
        for m in msgs:
            prog.append(f'printf("mt {m} %ld\\n", (long)(MT_{m}));')
            prog.append(f'printf("hash {m} %lx\\n", (unsigned long)(HASH_{m}));')
        for s, cname in structs.items():
            prog.append(f'printf("size {s} %zu\\n", sizeof({cname}));')
            pycls = getattr(mod, "MDF_" + s, None) or getattr(mod, s)
            for fname, _ in pycls._fields_:
                fn = fname[1:]
                prog.append(f'printf("off {s}.{fn} %zu\\n", offsetof({cname}, {fn}));')
        prog.append('return 0;}')
        cfile = os.path.join(tmp, "probe.c")
        open(cfile, "w").write("\n".join(prog))
        exe = os.path.join(tmp, "probe")
        p = subprocess.run(["gcc", "-I", os.path.dirname(files[".h"]), "-o", exe, cfile], capture_output=True, text=True)
        if p.returncode != 0:
            errs = [l for l in p.stderr.splitlines() if "error" in l]
            bad.append("the generated C header does not compile / lacks a definition the other outputs have: " + (errs[0][:260] if errs else "gcc failed"))
        else:
            for line in subprocess.run([exe], capture_output=True, text=True).stdout.splitlines():
                k, n, v = line.split()
                cvals[(k, n)] = int(v, 16) if k == "hash" else int(v)
    # ---- compare
    for c in consts:
        py = getattr(mod, c)
        vals = {"py": py}
        m = re.search(rf"RTMA\.constants\.{c}\s*=\s*([-\w.]+)\s*;", js)
        if m:
            vals["js"] = float(m.group(1)) if "." in m.group(1) else int(m.group(1))
        m = re.search(rf"\.defines\.{c}\s*=\s*([-\w.]+)\s*;", ml)
        if m:
            vals["matlab"] = float(m.group(1)) if "." in m.group(1) else int(m.group(1))
        if ("const", c) in cvals:
            vals["c"] = cvals[("const", c)]
        checked.append(("const", c, len(vals)))
        if len({float(v) for v in vals.values()}) > 1:
            bad.append(f"constant {c} differs between outputs: {vals}")
    for mname, mid in msgs.items():
        cls = getattr(mod, "MDF_" + mname)
        ids = {"py": cls.type_id}
        hs = {"py": cls.type_hash}
        m = re.search(rf"RTMA\.MT\.{mname}\s*=\s*(\d+)", js)
        if m:
            ids["js"] = int(m.group(1))
        m = re.search(rf'RTMA\.HASH\.{mname}\s*=\s*"([0-9A-Fa-f]+)"', js)
        if m:
            hs["js"] = int(m.group(1), 16)
        m = re.search(rf"\.MT\.{mname}\s*=\s*(\d+)", ml)
        if m:
            ids["matlab"] = int(m.group(1))
        m = re.search(rf'\.hash\.{mname}\s*=\s*"([0-9A-Fa-f]+)"', ml)
        if m:
            hs["matlab"] = int(m.group(1), 16)
        if ("mt", mname) in cvals:
            ids["c"] = cvals[("mt", mname)]
            hs["c"] = cvals[("hash", mname)]
        checked.append(("msg", mname, len(ids), len(hs)))
        if len(set(ids.values())) > 1 or ids["py"] != mid:
            bad.append(f"message id of {mname} differs between outputs: {ids} (defined: {mid})")
        if len(set(hs.values())) > 1:
            bad.append(f"version hash of {mname} differs between outputs: " + str({k: hex(v) for k, v in hs.items()}))
    for s, cname in structs.items():
        pycls = getattr(mod, "MDF_" + s, None) or getattr(mod, s)
        pyfields = [fn[1:] for fn, _ in pycls._fields_]
        top = "MDF" if cname.startswith("MDF_") else "SDF"
        m = re.search(rf"RTMA\.{top}\.{s} = \(\) => \{{\s*return \{{(.*?)\n  \}}", js, re.S)
        if m:
            jsfields = re.findall(r"^\s*(\w+):", m.group(1), re.M)
            checked.append(("js-fields", s))
            if jsfields != pyfields:
                bad.append(f"field list of {s} differs: JavaScript {jsfields}, Python {pyfields}")
        if ("size", s) in cvals:
            if cvals[("size", s)] != ctypes.sizeof(pycls):
                bad.append(f"sizeof({cname}) is {cvals[('size', s)]} in C and {ctypes.sizeof(pycls)} in Python")
            for fname, _ in pycls._fields_:
                fn = fname[1:]
                po = getattr(pycls, fname).offset
                if cvals.get(("off", f"{s}.{fn}")) != po:
                    bad.append(f"offsetof({cname}, {fn}) is {cvals.get(('off', f'{s}.{fn}'))} in C and {po} in Python")
            checked.append(("layout", s))
finally:
    shutil.rmtree(tmp, ignore_errors=True)
for b in bad:
    print("C04-REPLAY-VIOLATION:", b)
print(f"C04-REPLAY-DONE violations={len(bad)} checked={len(checked)} gcc={'yes' if shutil.which('gcc') else 'no'}")
