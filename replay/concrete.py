"""replay.concrete -- evaluate the sidecar contracts on REAL objects (run-time monitor).

Runs under /venv/bin/python (no z3).  The same clause strings that the verifier translates to z3
are interpreted here over concrete python objects; ghost globals live in a dict, ghost code is
interpreted, quantifiers range over a finite universe (the objects of the replayed state and a
pool of integers).  A clause that cannot be evaluated concretely is reported as 'not evaluable',
never as a violation.
"""
from __future__ import annotations
import ast, collections, copy, ctypes


class EvalError(Exception):
    pass


class GMap(dict):
    """total map with a default (ghost Map[K,V])"""

    def __init__(self, default_factory, *a):
        super().__init__(*a)
        self.df = default_factory

    def __missing__(self, k):
        return self.df()

    def copy(self):
        g = GMap(self.df)
        for k, v in self.items():
            g[k] = v.copy() if isinstance(v, GMap) else v
        return g

    def __eq__(self, other):
        if not isinstance(other, dict):
            return False
        keys = set(self) | set(other)
        return all(self[k] == other[k] for k in keys)


def ghost_default(tstr):
    t = tstr.strip()
    if t.startswith("Map["):
        inner = t[4:-1]
        depth, cut = 0, None
        for i, ch in enumerate(inner):
            if ch == "[":
                depth += 1
            elif ch == "]":
                depth -= 1
            elif ch == "," and depth == 0:
                cut = i
                break
        vt = inner[cut + 1:]
        return GMap(lambda vt=vt: ghost_default(vt))
    if t in ("int", "Int"):
        return 0
    if t in ("bool", "Bool"):
        return False
    if t.startswith(("Set[", "set[")):
        return set()
    return None


class Monitor:
    def __init__(self, spec: dict, universe=None, pool=None):
        self.spec = spec
        self.universe = universe or {}      # class name -> list of objects
        self.pool = sorted(set(pool or [0, 1, 2]))
        self.G = {}                         # ghost globals
        for n, t in spec["globals"].items():
            self.G[n] = ghost_default(t)
        self.ghost_fields = {}              # (id(obj), field) -> value
        self.violations = []
        self.evaluated = 0
        self.not_evaluable = []
        self.stack = []                     # active contracted calls: (key, env)
        self._old = None

    # ------------------------------------------------------------------ objects
    def objs(self, cls):
        out = []
        for c, lst in self.universe.items():
            for o in lst:
                if type(o).__name__ == cls or cls in [b.__name__ for b in type(o).__mro__]:
                    if all(o is not x for x in out):
                        out.append(o)
        return out

    def register(self, obj):
        self.universe.setdefault(type(obj).__name__, [])
        if all(obj is not x for x in self.universe[type(obj).__name__]):
            self.universe[type(obj).__name__].append(obj)

    # ------------------------------------------------------------------ snapshots for old()
    def snapshot(self):
        snap = {"G": {k: (v.copy() if isinstance(v, GMap) else copy.copy(v)) for k, v in self.G.items()}, "attrs": {}, "alloc": set()}
        for lst in self.universe.values():
            for o in lst:
                snap["alloc"].add(id(o))
                d = {}
                src = getattr(o, "__dict__", None)
                if src is not None:
                    for k, v in list(src.items()):
                        if isinstance(v, (set, list, dict, collections.Counter)):
                            if isinstance(v, dict) and not isinstance(v, collections.Counter):
                                d[k] = {kk: (set(vv) if isinstance(vv, set) else vv) for kk, vv in v.items()}
                            else:
                                d[k] = copy.copy(v)
                        elif isinstance(v, (int, float, str, bool, type(None))) or hasattr(v, "__dict__") or isinstance(v, ctypes.Structure):
                            d[k] = v
                elif isinstance(o, ctypes.Structure):
                    for fname, _ in type(o)._fields_:
                        try:
                            d[fname.lstrip("_")] = getattr(o, fname.lstrip("_"))
                        except Exception:
                            pass
                snap["attrs"][id(o)] = d
        snap["gf"] = dict(self.ghost_fields)
        return snap

    # ------------------------------------------------------------------ expression evaluation
    def ev(self, node, env, old=None):
        m = getattr(self, "e_" + type(node).__name__, None)
        if m is None:
            raise EvalError(f"unsupported {type(node).__name__}")
        return m(node, env, old)

    def eval_text(self, text, env, old=None):
        return self.ev(ast.parse(text.strip(), mode="eval").body, env, old)

    def e_Constant(self, n, env, old):
        return n.value

    def e_Name(self, n, env, old):
        if n.id in env:
            return env[n.id]
        if n.id in self.G:
            return (old["G"] if old else self.G)[n.id]
        if n.id in ("null", "None"):
            return None
        if n.id in ("True", "False"):
            return n.id == "True"
        if n.id == "_VALIDATION_ENABLED":
            from pyrtma import validators
            return validators._VALIDATION_ENABLED.get()
        sf = self.spec["specfuncs"].get(n.id)
        if sf is not None and not sf["params"]:
            return self.call_specfunc(n.id, [], env, old)
        raise EvalError(f"unknown name {n.id}")

    def getattr_(self, obj, attr, old):
        if obj is None:
            raise EvalError(f"None.{attr}")
        if old is not None and id(obj) in old["attrs"] and attr in old["attrs"][id(obj)]:
            return old["attrs"][id(obj)][attr]
        key = (id(obj), attr)
        gf = old["gf"] if old is not None else self.ghost_fields
        if key in gf:
            return gf[key]
        if attr == "sending_traffic" and hasattr(obj, "sending_traffic"):
            return obj.sending_traffic.get()
        if hasattr(obj, attr):
            v = getattr(obj, attr)
            return v
        cls = type(obj).__name__
        for c, d in self.spec["classes"].items():
            if attr in d["ghost"] and (c == cls or c in [b.__name__ for b in type(obj).__mro__]):
                return ghost_default(d["ghost"][attr])
        raise EvalError(f"{cls}.{attr}")

    def e_Attribute(self, n, env, old):
        return self.getattr_(self.ev(n.value, env, old), n.attr, old)

    def e_Subscript(self, n, env, old):
        base = self.ev(n.value, env, old)
        idx = self.ev(n.slice, env, old)
        if isinstance(base, (set, frozenset)):
            try:
                return idx in base
            except TypeError:
                return any(x is idx for x in base)
        if isinstance(base, GMap):
            return base[idx]
        if isinstance(base, collections.Counter):
            return base.get(idx, 0)
        if isinstance(base, collections.defaultdict):
            return base.get(idx, base.default_factory() if base.default_factory else None)
        if isinstance(base, dict):
            try:
                return base.get(idx)
            except TypeError:
                return None
        if isinstance(base, (list, tuple)) or isinstance(base, ctypes.Array) or hasattr(base, "__getitem__"):
            try:
                return base[idx]
            except Exception as ex:
                raise EvalError(f"index {idx}: {ex}")
        raise EvalError(f"subscript on {type(base).__name__}")

    def e_UnaryOp(self, n, env, old):
        v = self.ev(n.operand, env, old)
        if isinstance(n.op, ast.Not):
            return not v
        if isinstance(n.op, ast.USub):
            return -v
        raise EvalError("unary")

    def e_BoolOp(self, n, env, old):
        if isinstance(n.op, ast.And):
            for v in n.values:
                if not self.ev(v, env, old):
                    return False
            return True
        for v in n.values:
            if self.ev(v, env, old):
                return True
        return False

    def e_BinOp(self, n, env, old):
        a, b = self.ev(n.left, env, old), self.ev(n.right, env, old)
        ops = {ast.Add: lambda: a + b, ast.Sub: lambda: a - b, ast.Mult: lambda: a * b, ast.Mod: lambda: a % b, ast.FloorDiv: lambda: a // b,
               ast.Pow: lambda: a ** b, ast.BitOr: lambda: a | b, ast.BitAnd: lambda: a & b}
        for k, f in ops.items():
            if isinstance(n.op, k):
                return f()
        raise EvalError("binop")

    def e_Compare(self, n, env, old):
        left = self.ev(n.left, env, old)
        for op, c in zip(n.ops, n.comparators):
            right = self.ev(c, env, old)
            if isinstance(op, (ast.Eq, ast.Is)):
                ok = self.same(left, right)
            elif isinstance(op, (ast.NotEq, ast.IsNot)):
                ok = not self.same(left, right)
            elif isinstance(op, (ast.In, ast.NotIn)):
                try:
                    isin = any(self.same(left, x) for x in right) if isinstance(right, (list, tuple)) else left in right
                except TypeError:
                    isin = any(self.same(left, x) for x in right)
                ok = isin if isinstance(op, ast.In) else not isin
            else:
                ok = {ast.Lt: lambda: left < right, ast.LtE: lambda: left <= right, ast.Gt: lambda: left > right, ast.GtE: lambda: left >= right}[type(op)]()
            if not ok:
                return False
            left = right
        return True

    def same(self, a, b):
        prim = (int, float, str, bool, type(None), set, frozenset, dict, list, tuple)
        if isinstance(a, prim) or isinstance(b, prim):
            if isinstance(a, (set, frozenset)) and isinstance(b, (set, frozenset)):
                return set(a) == set(b)
            return a == b
        return a is b

    def e_Tuple(self, n, env, old):
        return tuple(self.ev(x, env, old) for x in n.elts)

    def e_IfExp(self, n, env, old):
        return self.ev(n.body, env, old) if self.ev(n.test, env, old) else self.ev(n.orelse, env, old)

    def binders(self, node):
        out = []
        for part in node.value.replace(",", " ").split():
            nm, t = part.split(":")
            out.append((nm, t))
        return out

    def domain(self, t):
        if t in ("Int", "int"):
            return list(self.pool)
        if t in ("Str", "str"):
            return [""]
        return self.objs(t)

    def e_Call(self, n, env, old):
        f = n.func
        if not isinstance(f, ast.Name):
            raise EvalError("call")
        nm, a = f.id, n.args
        if nm == "old":
            if self._old is None:
                raise EvalError("old() without snapshot")
            return self.ev(a[0], env, self._old)
        if nm in ("forall", "exists"):
            bs = self.binders(a[0])
            import itertools
            doms = [self.domain(t) for _, t in bs]
            for combo in itertools.product(*doms):
                e2 = dict(env)
                for (bn, _), v in zip(bs, combo):
                    e2[bn] = v
                try:
                    r = bool(self.ev(a[1], e2, old))
                except EvalError:
                    continue            # terms undefined at this point of the universe: skip the instance
                if nm == "forall" and not r:
                    return False
                if nm == "exists" and r:
                    return True
            return nm == "forall"
        if nm == "implies":
            return (not self.ev(a[0], env, old)) or bool(self.ev(a[1], env, old))
        if nm == "iff":
            return bool(self.ev(a[0], env, old)) == bool(self.ev(a[1], env, old))
        if nm == "ite":
            return self.ev(a[1], env, old) if self.ev(a[0], env, old) else self.ev(a[2], env, old)
        if nm == "dom":
            d = self.ev(a[0], env, old)
            return set(d.keys()) if isinstance(d, dict) else set()
        if nm == "len":
            v = self.ev(a[0], env, old)
            return len(v)
        if nm == "nbytes":
            v = self.ev(a[0], env, old)
            if isinstance(v, (bytes, bytearray)):
                return len(v)
            if isinstance(v, memoryview):
                return v.nbytes
            return ctypes.sizeof(v)
        if nm == "isascii":
            return self.ev(a[0], env, old).isascii()
        if nm == "store":
            m, k, v = self.ev(a[0], env, old), self.ev(a[1], env, old), self.ev(a[2], env, old)
            m2 = m.copy()
            m2[k] = v
            return m2
        if nm == "empty":
            return set()
        if nm == "setadd":
            s = set(self.ev(a[0], env, old)); s.add(self.ev(a[1], env, old)); return s
        if nm == "setdel":
            s = set(self.ev(a[0], env, old)); s.discard(self.ev(a[1], env, old)); return s
        if nm == "typeis":
            v = self.ev(a[0], env, old)
            return type(v).__name__ == (a[1].id if isinstance(a[1], ast.Name) else a[1].value)
        if nm == "cast":
            v = self.ev(a[0], env, old)
            cname = a[1].id
            if type(v).__name__ == cname:
                return v
            import pyrtma.core_defs as cd
            cls = getattr(cd, cname, None)
            if cls is None or not isinstance(v, ctypes.Structure):
                raise EvalError(f"cast to {cname}")
            if ctypes.sizeof(v) >= ctypes.sizeof(cls):
                return cls.from_buffer_copy(bytes(v)[: ctypes.sizeof(cls)])
            raise EvalError("cast size")
        if nm == "wrap_int":
            v = self.ev(a[0], env, old); bits = a[1].value
            signed = a[2].value if len(a) > 2 else True
            v &= (1 << bits) - 1
            if signed and v >= 1 << (bits - 1):
                v -= 1 << bits
            return v
        if nm == "allocated":
            v = self.ev(a[0], env, old)
            return v is not None and (old is None or id(v) in old["alloc"])
        if nm == "fresh":
            v = self.ev(a[0], env, old)
            return v is not None and self._old is not None and id(v) not in self._old["alloc"]
        if nm == "store_all_zero":
            return GMap(lambda: 0)
        if nm == "dtype":
            return type(self.ev(a[0], env, old)).__name__
        if nm == "classid":
            return a[0].id
        if nm in self.spec["specfuncs"]:
            return self.call_specfunc(nm, [self.ev(x, env, old) for x in a], env, old)
        raise EvalError(f"spec form {nm}")

    def call_specfunc(self, name, args, env, old):
        sf = self.spec["specfuncs"][name]
        e2 = {p: v for (p, _), v in zip(sf["params"], args)}
        return self.ev(ast.parse(sf["body"].strip(), mode="eval").body, e2, old)

    # ------------------------------------------------------------------ ghost code
    def exec_ghost(self, src, env):
        for stmt in ast.parse(src).body:
            self._gstmt(stmt, env)

    def _gstmt(self, s, env):
        if isinstance(s, ast.Assign):
            v = self.ev(s.value, env, None)
            t = s.targets[0]
            if isinstance(t, ast.Name):
                if t.id in self.G:
                    self.G[t.id] = v
                else:
                    env[t.id] = v
            elif isinstance(t, ast.Attribute):
                o = self.ev(t.value, env, None)
                self.ghost_fields[(id(o), t.attr)] = v
            else:
                raise EvalError("ghost target")
        elif isinstance(s, ast.If):
            for b in (s.body if self.ev(s.test, env, None) else s.orelse):
                self._gstmt(b, env)
        elif isinstance(s, (ast.Pass, ast.Expr)):
            return
        else:
            raise EvalError("ghost stmt")

    # ------------------------------------------------------------------ clause checks
    def check(self, key, kind, idx, text, tags, env, old_snap):
        self._old = old_snap
        try:
            ok = bool(self.eval_text(text, env, None))
            self.evaluated += 1
        except EvalError as ex:
            self.not_evaluable.append((key, kind, idx, str(ex)))
            return None
        except Exception as ex:
            import traceback
            self.not_evaluable.append((key, kind, idx, repr(ex) + " @ " + traceback.format_exc().splitlines()[-3].strip()[:120]))
            return None
        if not ok:
            self.violations.append(dict(function=key, kind=kind, index=idx, clause=text, tags=tags))
        return ok
