"""replay for C13 refutations: run the real parser / compilers (the tree given as argv[1]) on a small definition,
relocated copies and single edits of it; print one line per observed violation of the property.  Run under /venv/bin/python."""
import os, pathlib, re, shutil, sys, tempfile, logging

repo = sys.argv[1]
sys.path.insert(0, os.path.join(repo, "src"))
logging.disable(logging.CRITICAL)
from pyrtma.parser import Parser

BASE = dict(name="FOO", id=1234, fields=[("a", "int32"), ("b", "int32"), ("c", "double"), ("d", "float[4]"), ("e", "char[8]")])


def text(d, comment=False, extra=False):
    s = ""
    if comment:
        s += "# a comment\n\n"
    s += "message_defs:\n"
    if extra:
        s += "  UNRELATED:\n    id: 1300\n    fields:\n      q: int16\n      r: int16\n"
    s += f"  {d['name']}:\n    id: {d['id']}\n"
    if d["fields"] is None:
        s += "    fields: null\n"
    else:
        s += "    fields:\n" + "".join(f"      {k}: {v}\n" for k, v in d["fields"])
    s += f"struct_defs:\n  S_{d['name']}:\n    fields:\n" + "".join(f"      {k}: {v}\n" for k, v in (d["fields"] or [("z", "int32")]))
    return s


def hashes(d, where, fname="defs.yaml", **kw):
    os.makedirs(where, exist_ok=True)
    f = pathlib.Path(where) / fname
    f.write_text(text(d, **kw))
    p = Parser()
    p.parse(f)
    return p.message_defs[d["name"]].hash, p.struct_defs["S_" + d["name"]].hash, p


tmp = tempfile.mkdtemp(prefix="c13_")
bad = []
try:
    h0, s0, p0 = hashes(BASE, os.path.join(tmp, "one"))
    for label, args in (("another directory and file name", dict(where=os.path.join(tmp, "two", "deeper"), fname="other.yaml")),
                        ("a second run", dict(where=os.path.join(tmp, "one"))),
                        ("comments and blank lines", dict(where=os.path.join(tmp, "three"), comment=True)),
                        ("an unrelated definition in the file", dict(where=os.path.join(tmp, "four"), extra=True))):
        h, s, _ = hashes(BASE, **args)
        if h != h0:
            bad.append(f"message hash differs with {label}: {h0[:8]} vs {h[:8]}")
        if s != s0:
            bad.append(f"struct hash differs with {label}: {s0[:8]} vs {s[:8]}")
    edits = {
        "rename": dict(BASE, name="FOO2"), "id change": dict(BASE, id=1235),
        "field rename": dict(BASE, fields=[("a", "int32"), ("bb", "int32")] + BASE["fields"][2:]),
        "field type change": dict(BASE, fields=[("a", "int32"), ("b", "uint32")] + BASE["fields"][2:]),
        "field array length change": dict(BASE, fields=BASE["fields"][:3] + [("d", "float[6]"), ("e", "char[8]")]),
        "field array -> scalar": dict(BASE, fields=BASE["fields"][:3] + [("d", "float"), ("e", "char[8]")]),
        "field insertion": dict(BASE, fields=[("a", "int32"), ("b", "int32"), ("n", "int32"), ("m", "int32")] + BASE["fields"][2:]),
        "field deletion": dict(BASE, fields=BASE["fields"][:2] + BASE["fields"][3:]),
        "field reordering": dict(BASE, fields=[("b", "int32"), ("a", "int32")] + BASE["fields"][2:]),
        "message -> signal": dict(BASE, fields=None),
    }
    for label, d in edits.items():
        h, s, _ = hashes(d, os.path.join(tmp, "e_" + label.replace(" ", "_").replace(">", "")))
        if h == h0:
            bad.append(f"message hash unchanged by {label}")
        if label.startswith("field") and s == s0:
            bad.append(f"struct hash unchanged by {label}")
    # outputs
    from pyrtma.compile import compile as rtma_compile
    out = os.path.join(tmp, "out")
    os.makedirs(out, exist_ok=True)
    try:
        rtma_compile([str(pathlib.Path(tmp) / "one" / "defs.yaml")], out_dir=out, out_name="m", python=True, c_lang=True, javascript=True, matlab=True)
    except Exception as ex:
        print("C13-REPLAY-NOTE: compile failed:", repr(ex)[:200])
    want = h0[:8].lower()
    pats = {".py": r"type_hash: ClassVar\[int\] = 0x([0-9A-Fa-f]+)", ".h": r"#define HASH_FOO\s+0x([0-9A-Fa-f]+)", ".js": r'RTMA\.HASH\.FOO = "([0-9A-Fa-f]+)"', ".m": r'\.hash\.FOO = "([0-9A-Fa-f]+)"'}
    found = {}
    for root, _, files in os.walk(out):
        for fn in files:
            ext = os.path.splitext(fn)[1]
            if ext in pats:
                body = open(os.path.join(root, fn)).read()
                if ext == ".py":
                    m = re.search(r"class MDF_FOO\(.*?type_hash: ClassVar\[int\] = 0x([0-9A-Fa-f]+)", body, re.S)
                else:
                    m = re.search(pats[ext], body)
                if m:
                    found[ext] = m.group(1).lower()
    for ext, v in found.items():
        if v != want:
            bad.append(f"the {ext} output carries hash {v}, the parser computed {want}")
    # a name that fills the C back end's 48-column name field
    LONG = "CURSOR_FEEDBACK_DECODER_OUTPUT_VELOCITY_ESTIMATE_MSG"
    try:
        hl, _, _ = hashes(dict(BASE, name=LONG, id=1240), os.path.join(tmp, "long"))
        outl = os.path.join(tmp, "outl")
        os.makedirs(outl, exist_ok=True)
        rtma_compile([str(pathlib.Path(tmp) / "long" / "defs.yaml")], out_dir=outl, out_name="m", python=False, c_lang=True, javascript=False, matlab=False)
        for root, _, files in os.walk(outl):
            for fn in files:
                if fn.endswith(".h"):
                    m = re.search(rf"^#define HASH_{LONG}[ \t]+0x([0-9A-Fa-f]+)", open(os.path.join(root, fn)).read(), re.M)
                    if not m:
                        bad.append(f"the .h output carries hash <none: no `#define HASH_{LONG} <value>` line> for a {len(LONG)}-character message name, the parser computed {hl[:8]}")
                    elif m.group(1).lower() != hl[:8].lower():
                        bad.append(f"the .h output carries hash {m.group(1)} for {LONG}, the parser computed {hl[:8]}")
    except Exception as ex:
        print("C13-REPLAY-NOTE: long-name compile failed:", repr(ex)[:200])
finally:
    shutil.rmtree(tmp, ignore_errors=True)
for b in bad:
    print("C13-REPLAY-VIOLATION:", b)
print(f"C13-REPLAY-DONE violations={len(bad)} outputs_checked={sorted(found) if 'found' in dir() else []}")
