"""replay for C17 (hand-shake): run the REAL DataCollection / DataSet / RawFormatter of the tree given as argv[1] with the writer
thread under a scheduler: the two threading.Event objects are replaced by a subclass that can park the writer thread at a chosen
Event operation, and DataSet.write is wrapped to park the writer at the start of a write pass.  Schedule (the counter-model's):
  1. 30 messages recorded, a write is triggered; the writer thread writes and is parked right after its FIRST Event operation
     of the cycle (before its second one);
  2. the recorder records 10 more messages and triggers the next write if the flags let it (update);
  3. the writer's pending second operation lands; the writer is let into its next pass and parked at its start;
  4. the recorder records 10 more messages and calls stop();   5. the writer is released; the thread is closed.
The property demands: the file holds every recorded message exactly once, in arrival order.  Exit 0 held / 1 violated.
Run under /venv/bin/python with a timeout."""
import os, sys, threading, time, tempfile, shutil, logging, ctypes
repo = sys.argv[1]
sys.path.insert(0, os.path.join(repo, "src"))
logging.disable(logging.CRITICAL)
import pyrtma
from pyrtma.message import Message
from pyrtma.header import MessageHeader, get_header_cls
import pyrtma.core_defs as cd
from pyrtma.data_logger.data_collection import DataCollection
from pyrtma.data_logger.data_set import DataSet
from pyrtma.data_logger.metadata import LoggingMetadata
from pyrtma.data_logger.formatters.raw import RawFormatter

tmp = tempfile.mkdtemp(prefix="c17_")
result = dict(violations=[])


class CtrlEvent(threading.Event):
    """threading.Event whose set()/clear() by the writer thread can be parked"""
    def __init__(self, name, ctl):
        super().__init__()
        self.name, self.ctl = name, ctl

    def _op(self, op, real):
        if threading.current_thread() is self.ctl.get("writer"):
            self.ctl["wops"] = self.ctl.get("wops", 0) + 1
            k = self.ctl["wops"]
            real()
            self.ctl.setdefault("trace", []).append((self.name, op))
            gate = self.ctl.get(("after", k))
            if gate is not None:
                self.ctl[("reached", k)].set()
                gate.wait(20)
        else:
            real()

    def set(self):
        self._op("set", lambda: threading.Event.set(self))

    def clear(self):
        self._op("clear", lambda: threading.Event.clear(self))


def main():
    ctl = {}
    md = LoggingMetadata()
    dc = DataCollection("c17", tmp, "coll", md, use_thread=True)
    try:
        ctl["writer"] = dc.write_thread
        dc.write_to_disk = CtrlEvent("write_to_disk", ctl)
        dc.write_finished = CtrlEvent("write_finished", ctl)
        time.sleep(0.7)      # the writer re-reads self.write_to_disk at its next poll
        ds = DataSet("c17", "d", "sub", "data", RawFormatter, -1, [cd.ALL_MESSAGE_TYPES], md)
        dc.add_data_set(ds)
        pass_gate = dict(n=0)
        real_write = ds.write

        def gated_write():
            pass_gate["n"] += 1
            g = ctl.get(("pass", pass_gate["n"]))
            if g is not None:
                ctl[("pass_reached", pass_gate["n"])].set()
                g.wait(20)
            real_write()
        ds.write = gated_write
        dc.start()
        hdr_cls = get_header_cls()
        sent = []

        def rec(n):
            for _ in range(n):
                h = hdr_cls()
                d = cd.MDF_TIMING_TEST() if hasattr(cd, "MDF_TIMING_TEST") else cd.MDF_EXIT()
                h.msg_type = d.type_id
                h.msg_count = len(sent) + 1
                h.num_data_bytes = ctypes.sizeof(d)
                m = Message(h, d)
                sent.append(h.msg_count)
                dc.update(m)
        # gates: park the writer after its 1st Event op of cycle 1; park it at the start of pass 2
        ctl[("after", 1)] = threading.Event(); ctl[("reached", 1)] = threading.Event()
        ctl[("pass", 2)] = threading.Event(); ctl[("pass_reached", 2)] = threading.Event()
        rec(30)
        dc.next_write = -1.0
        rec(1)                                   # triggers write #1
        if not ctl[("reached", 1)].wait(10):
            print("C17-REPLAY-NOTE: the writer never reached its first Event operation"); return 2
        dc.next_write = -1.0
        rec(10)                                  # may trigger write #2 while the writer still owes its second operation
        ctl[("after", 1)].set()                  # the pending operation lands
        in_pass2 = ctl[("pass_reached", 2)].wait(3)
        rec(10)
        t0 = time.time()
        flags = (dc.write_to_disk.is_set(), dc.write_finished.is_set())
        dc.stop()                                # must wait for a running pass
        waited = time.time() - t0
        ctl[("pass", 2)].set()
        time.sleep(0.5)
        if in_pass2:
            result["note"] = f"stop() called while the writer was inside a write pass: flags (write_to_disk, write_finished) = {flags}, stop() returned after {waited:.2f}s"
        return sent, ds
    finally:
        for k, v in list(ctl.items()):
            if isinstance(k, tuple) and k[0] in ("after", "pass"):
                v.set()
        dc.close()


out = None
try:
    out = main()
    if isinstance(out, tuple):
        sent, ds = out
        files = sorted(p for p in __import__("pathlib").Path(tmp).rglob("*.raw"))
        hdr_cls = get_header_cls()
        hs = ctypes.sizeof(hdr_cls)
        got = []
        for f in files:
            b = f.read_bytes()
            off = 0
            while off + hs <= len(b):
                h = hdr_cls.from_buffer_copy(b[off:off + hs])
                got.append(h.msg_count)
                off += hs + h.num_data_bytes
        if got != sent:
            lost = [x for x in sent if x not in got]
            dup = sorted({x for x in got if got.count(x) > 1})
            inorder = got == sorted(got)
            print(f"C17-REPLAY-VIOLATION: recorded {len(sent)} messages, file holds {len(got)}: lost={lost[:8]}{'...' if len(lost) > 8 else ''} duplicated={dup[:8]} "
                  f"{'in order' if inorder else 'OUT OF ORDER'}; " + result.get("note", ""))
            sys.exit(1)
        print("C17-REPLAY-OK", len(sent), "messages, complete and in order;", result.get("note", ""))
        sys.exit(0)
    sys.exit(out if isinstance(out, int) else 2)
finally:
    shutil.rmtree(tmp, ignore_errors=True)
