"""replay.manager_replay -- drive the REAL manager code from a verifier counter-model.

usage (under /venv/bin/python, PYTHONPATH=<repo>/src:/verif):  python -m replay.manager_replay <request.json>
request: {spec: <contracts json path>, function: 'pyrtma.manager:Class.func', witness: {...}, fail_sets: [[obj ids]...]}
prints one JSON line: {reproduced, precondition_ok, violations, exception, evaluated, variant}
"""
from __future__ import annotations
import ctypes, itertools, json, os, sys, traceback, faulthandler

faulthandler.dump_traceback_later(100, exit=True)


class StubSocket:
    _n = 0

    def __init__(self, mon, name):
        StubSocket._n += 1
        self.name = name
        self.closed = False
        self.pending = 0
        self.frames = 0
        self.last_count = 0
        self.is_listen = False
        self.fail = False          # next sendall raises ConnectionResetError
        self.sent = []
        self._mon = mon
        self._fd = 1000 + StubSocket._n

    def fileno(self):
        return -1 if self.closed else self._fd

    def __hash__(self):
        return self._fd

    def __eq__(self, o):
        return self is o

    def shutdown(self, how):
        # environment contract Socket.shutdown: raises OSError(ENOTCONN) when the peer has reset the connection (the scripted-failure sockets)
        if self.closed:
            raise OSError(9, "Bad file descriptor")
        if self.fail:
            raise OSError(107, "Transport endpoint is not connected")

    def sendall(self, data):
        from pyrtma.header import MessageHeader
        if self.closed:
            raise OSError(9, "Bad file descriptor")
        mon = self._mon
        is_hdr = isinstance(data, MessageHeader)
        # protocol preconditions of the environment contract (C05)
        if is_hdr:
            if self.pending != 0:
                mon.violations.append(dict(function="Socket.sendall_header", kind="requires@callsite", index=1, clause="self.pending == 0", tags=["C05"]))
            if data.msg_count != self.frames + 1:
                mon.violations.append(dict(function="Socket.sendall_header", kind="requires@callsite", index=2,
                                           clause=f"data.msg_count == self.frames + 1 (got {data.msg_count}, frames {self.frames})", tags=["C05"]))
        else:
            n = len(data) if isinstance(data, (bytes, bytearray)) else (data.nbytes if isinstance(data, memoryview) else ctypes.sizeof(data))
            if n != self.pending:
                mon.violations.append(dict(function="Socket.sendall_payload", kind="requires@callsite", index=1,
                                           clause=f"nbytes(data) == self.pending (got {n}, pending {self.pending})", tags=["C05"]))
        if self.fail:
            raise ConnectionResetError(104, "scripted failure")
        if is_hdr:
            self.frames += 1
            self.pending = data.num_data_bytes
            self.last_count = data.msg_count
            self.sent.append(("H", data.msg_type, data.msg_count, data.num_data_bytes, data.dest_mod_id))
        else:
            self.pending = 0
            self.sent.append(("P", n))

    def recv_into(self, buf, n, flags=0):
        return n

    def close(self):
        self.closed = True

    def setsockopt(self, *a):
        pass

    def __repr__(self):
        return f"<stub {self.name}{' closed' if self.closed else ''}>"


def build(req):
    import select
    from replay.concrete import Monitor, GMap
    import pyrtma.manager as M
    import pyrtma.core_defs as cd
    from pyrtma.header import MessageHeader, TimeCodeMessageHeader
    from pyrtma.message import Message
    spec = json.load(open(req["spec"]))
    w = req["witness"]
    mon = Monitor(spec, pool=w.get("pool") or [0, 1, 2])
    objs = {}
    O = w["objects"]
    # sockets first
    for oid, d in O.items():
        if d["class"] == "Socket":
            s = StubSocket(mon, oid)
            f = d["fields"]
            s.closed = bool(f.get("Socket.closed", False))
            s.pending = int(f.get("Socket.pending", 0) or 0)
            s.frames = int(f.get("Socket.frames", 0) or 0)
            objs[oid] = s
            mon.register(s)
    mgr_id = next((oid for oid, d in O.items() if d["class"] == "MessageManager"), None)
    mm = M.MessageManager("127.0.0.1", 0, log_level=50)
    real_listen = mm.listen_socket
    objs[mgr_id] = mm
    mon.register(mm)

    def ref(x):
        return objs.get(x) if isinstance(x, str) and x != "null" else None

    def header_from(oid):
        d = O[oid]["fields"]
        h = mm.header_cls()
        for fname, ctype in MessageHeader._fields_:
            off = getattr(MessageHeader, fname).offset
            key = None
            for k in d:
                if k.startswith(("$raw.int", "$raw.double", "$raw.float")) and k.endswith(f"@{off}") and "$ascii" not in k:
                    key = k
            if key is not None and isinstance(d[key], int):
                try:
                    with __import__("pyrtma.validators", fromlist=["x"]).disable_message_validation():
                        setattr(h, fname.lstrip("_"), d[key])
                except Exception:
                    pass
        return h

    for oid, d in O.items():
        if d["class"] in ("MessageHeader", "TimeCodeMessageHeader"):
            objs[oid] = header_from(oid)
            mon.register(objs[oid])
    for oid, d in O.items():
        if d["class"].startswith("MDF_") and hasattr(cd, d["class"]):
            cls = getattr(cd, d["class"])
            o = cls()
            for fname, ctype in cls._fields_:
                off = getattr(cls, fname).offset
                for k, v in d["fields"].items():
                    if k.startswith("$raw.int") and k.endswith(f"@{off}") and isinstance(v, int) and not isinstance(v, bool):
                        try:
                            with __import__("pyrtma.validators", fromlist=["x"]).disable_message_validation():
                                setattr(o, fname.lstrip("_"), v)
                        except Exception:
                            pass
            objs[oid] = o
            mon.register(o)
    mods = {}
    for oid, d in O.items():
        if d["class"] == "Module":
            f = d["fields"]
            conn = ref(f.get("Module.conn"))
            if not isinstance(conn, StubSocket):
                conn = StubSocket(mon, oid + "_conn")
                mon.register(conn)
            m = M.Module(uid=int(f.get("Module.uid", 0) or 0), conn=conn, address=("127.0.0.1", 5000), header_cls=mm.header_cls)
            m.name = f.get("Module.name", "") if isinstance(f.get("Module.name"), str) and f.get("Module.name", "").isascii() else ""
            m.name = m.name[:31]
            m.mod_id = int(f.get("Module.mod_id", 0) or 0)
            m.pid = int(f.get("Module.pid", 0) or 0) % (2 ** 31)
            m.subs = set(int(x) for x in f.get("Module.subs", []) if isinstance(x, int))
            m.connected = bool(f.get("Module.connected", False))
            m.is_logger = bool(f.get("Module.is_logger", False))
            m.unique = bool(f.get("Module.unique", True))
            m.msg_count = int(f.get("Module.msg_count", 0) or 0)
            m.drops = 0
            objs[oid] = m
            mods[oid] = m
            mon.register(m)
    mf = O[mgr_id]["fields"] if mgr_id else {}
    table = mf.get("MessageManager.modules")
    if isinstance(table, dict):
        mm.modules = {}
        for sk, mv in table.items():
            s, m = ref(sk), ref(mv)
            if isinstance(s, StubSocket) and isinstance(m, M.Module):
                mm.modules[s] = m
    mmm = ref(mf.get("MessageManager.mm_module"))
    if isinstance(mmm, M.Module):
        mm.mm_module = mmm
        if isinstance(mmm.conn, StubSocket):
            mm.listen_socket = mmm.conn
    subs = mf.get("MessageManager.subscriptions")
    if isinstance(subs, dict):
        mm.subscriptions.clear()
        for t, lst in subs.items():
            try:
                tt = int(t)
            except ValueError:
                continue
            for x in lst:
                m = ref(x)
                if isinstance(m, M.Module):
                    mm.subscriptions[tt].add(m)
    lg = mf.get("MessageManager.logger_modules")
    if isinstance(lg, list):
        mm.logger_modules = set(m for m in (ref(x) for x in lg) if isinstance(m, M.Module))
    wl = mf.get("MessageManager.wlist")
    if isinstance(wl, list):
        mm.wlist = [s for s in (ref(x) for x in wl) if isinstance(s, StubSocket)]
    for k in ("b_send_msg_timing",):
        if isinstance(mf.get("MessageManager." + k), bool):
            setattr(mm, k, mf["MessageManager." + k])
    if isinstance(mf.get("MessageManager.next_dynamic_mod_id_offset"), int):
        mm.next_dynamic_mod_id_offset = mf["MessageManager.next_dynamic_mod_id_offset"] % 100
    # receive buffers
    hid = mf.get("MessageManager.hdr_obj")
    if hid in O:
        h = header_from(hid)
        mm.header_buffer[:] = bytes(h)[: len(mm.header_buffer)]
    did = mf.get("MessageManager.data_obj")
    if did in objs and isinstance(objs[did], ctypes.Structure):
        b = bytes(objs[did])
        mm.data_buffer[: len(b)] = b
    # ghost globals
    for gname, val in (w.get("globals") or {}).items():
        if gname in ("gid_next", "cur_gid") and isinstance(val, int):
            mon.G[gname] = max(val, 1) if gname == "gid_next" else 0
    mon.G["gid_next"] = max(mon.G.get("gid_next") or 1, 1)
    mon.G["cur_gid"] = 0
    mon.ghost_fields[(id(mm._logger), "owner")] = mm
    hv = mm.header_cls.from_buffer(mm.header_buffer)
    mon.ghost_fields[(id(mm), "hdr_obj")] = hv
    mon.register(hv)
    try:
        from pyrtma.context import _get_core_defs
        dcls = _get_core_defs().get(hv.msg_type)
        if dcls is not None:
            dv = dcls.from_buffer(mm.data_buffer)
            mon.ghost_fields[(id(mm), "data_obj")] = dv
            mon.register(dv)
    except Exception:
        pass
    mon.register(mm._logger)
    select.select = lambda r, w_, x, t=None: ([], list(w_), [])
    try:
        real_listen.close()
    except Exception:
        pass
    return mon, mm, objs


def install(mon, spec):
    """wrap every contracted function of pyrtma.manager with the run-time monitor"""
    import functools, inspect
    import pyrtma.manager as M

    def make(key, con, fn, cls):
        sig = inspect.signature(fn)

        @functools.wraps(fn)
        def wrapper(*args, **kwargs):
            try:
                ba = sig.bind(*args, **kwargs)
                ba.apply_defaults()
                env = dict(ba.arguments)
            except TypeError:
                return fn(*args, **kwargs)
            for v in env.values():
                if hasattr(v, "__dict__") or isinstance(v, ctypes.Structure):
                    mon.register(v)
            # ghost_after hook of the caller (e.g. acknowledgement counters)
            caller = mon.stack[-1] if mon.stack else None
            snap = mon.snapshot()
            for i, (text, tags) in enumerate(con.get("requires", [])):
                mon.check(key, "requires", i, text, tags, env, snap)
            try:
                for g in con.get("ghost_entry", []):
                    mon.exec_ghost(g, env)
            except Exception:
                pass
            mon.stack.append((key, con, env))
            try:
                res = fn(*args, **kwargs)
            except BaseException as ex:
                mon.stack.pop()
                matched = False
                for ecls, posts in con.get("raises", {}).items():
                    if any(b.__name__ == ecls for b in type(ex).__mro__):
                        matched = True
                        for i, (text, tags) in enumerate(posts):
                            mon.check(key, f"raises[{ecls}]", i, text, tags, env, snap)
                if not matched and not isinstance(ex, (KeyboardInterrupt, SystemExit)):
                    mon.violations.append(dict(function=key, kind="noraise", index=0, clause=f"uncaught {type(ex).__name__}: {ex}", tags=["C03"]))
                raise
            mon.stack.pop()
            try:
                for g in con.get("ghost_exit", []):
                    mon.exec_ghost(g, env)
            except Exception:
                pass
            env2 = dict(env)
            env2["result"] = res
            for i, (text, tags) in enumerate(con.get("ensures", [])):
                mon.check(key, "ensures", i, text, tags, env2, snap)
            if caller is not None:
                hook = caller[1].get("ghost_after", {}).get(con["qualname"])
                if hook:
                    try:
                        cenv = dict(sys._getframe(1).f_locals)
                        cenv.update({k: v for k, v in caller[2].items() if k not in cenv})
                        for g in hook:
                            mon.exec_ghost(g, cenv)
                    except Exception:
                        pass
            return res
        return wrapper

    for key, con in spec["contracts"].items():
        if not key.startswith("pyrtma.manager:"):
            continue
        qn = con["qualname"]
        if "." not in qn:
            continue
        cname, fname = qn.split(".", 1)
        cls = getattr(M, cname, None)
        fn = cls.__dict__.get(fname) if cls else None
        if fn is None or isinstance(fn, property) or fname == "run":
            continue
        setattr(cls, fname, make(key, con, fn, cls))


def run(req):
    import pyrtma.manager as M
    from pyrtma.validators import disable_message_validation
    spec = json.load(open(req["spec"]))
    key = req["function"]
    qn = key.split(":")[1]
    out = dict(reproduced=False, variants=[])
    base_fail_sets = (req.get("fail_sets") or [[]])[:1]      # one variant per process (the wrappers bind one monitor)
    installed = False
    for fails in base_fail_sets:
        mon, mm, objs = build(req)
        if not installed:
            install(mon, spec)
            installed = True
        else:
            # wrappers hold the first monitor: rebind through a module-level indirection
            pass
        CUR["mon"] = mon
        for oid in fails:
            s = objs.get(oid)
            if isinstance(s, StubSocket):
                s.fail = True
        w = req["witness"]
        cname, fname = qn.split(".", 1)
        params = {}
        for p, v in w.get("params", {}).items():
            if p == "self":
                continue
            params[p] = objs.get(v, v) if isinstance(v, str) else v
        target = objs.get(w["params"].get("self")) if cname == "MessageManager" else objs.get(w["params"].get("self"))
        res = dict(fail=fails, exception=None)
        try:
            with disable_message_validation():
                getattr(target, fname)(**params)
        except BaseException as ex:
            res["exception"] = f"{type(ex).__name__}: {ex}"
            res["trace"] = traceback.format_exc()[-600:]
        top_req = [v for v in mon.violations if v["function"] == key and v["kind"] == "requires"]
        res["precondition_ok"] = not top_req
        tgt = req.get("target") or {}

        def matches(v):
            if tgt.get("kind") == "ensures":
                return v["function"] == key and v["kind"] == "ensures" and v["index"] == tgt.get("index")
            if tgt.get("kind") == "raises":
                return v["function"] == key and v["kind"].startswith("raises") and v["index"] == tgt.get("index")
            if tgt.get("kind") == "requires@callsite":
                return v["kind"] in ("requires", "requires@callsite") and v["function"].endswith(tgt.get("callee", "?")) and v["index"] == tgt.get("index")
            if tgt.get("kind") == "noraise":
                return v["kind"] == "noraise" and tgt.get("exc", "") in v["clause"]
            if tgt.get("kind") == "invariant":
                return v["function"] == key and v["kind"] in ("ensures", "noraise")
            return False
        res["all_violations"] = [f"{v['function']}/{v['kind']}[{v['index']}]" for v in mon.violations][:12]
        res["violations"] = [v for v in mon.violations if matches(v)][:4]
        if tgt.get("kind") == "noraise" and res["exception"] and tgt.get("exc", "?") in res["exception"]:
            res["violations"].append(dict(function=key, kind="noraise", index=0, clause=res["exception"], tags=[]))
        res["evaluated"] = mon.evaluated
        res["not_evaluable"] = len(mon.not_evaluable)
        res["not_evaluable_sample"] = [f"{a}/{b}[{c}]: {d}" for a, b, c, d in mon.not_evaluable[:5]]
        res["sent"] = {getattr(o, "name", "?"): o.sent[:6] for o in objs.values() if isinstance(o, StubSocket) and o.sent}
        res["header"] = dict(msg_type=hv_type(mm))
        out["variants"].append(res)
        if res["precondition_ok"] and (res["violations"]):
            out["reproduced"] = True
            out["variant"] = res
            break
    return out


CUR = {}


def hv_type(mm):
    try:
        return mm.header.msg_type
    except Exception:
        return None

if __name__ == "__main__":
    req = json.load(open(sys.argv[1]))
    try:
        out = run(req)
    except BaseException as ex:
        out = dict(reproduced=False, error=repr(ex), trace=traceback.format_exc()[-1500:])
    print("REPLAY-RESULT " + json.dumps(out, default=str))
    sys.stdout.flush()
    os._exit(0)
