"""replay of verifier counter-models on the real code (placeholder until the harnesses are in)"""
def replay_candidates(record, repo):
    return None
def replay_file(path, repo):
    print("replay harness not available for this record")
    return 2
