"""replay.runner -- replay verifier counter-models on the real code (sub-process under /venv/bin/python)."""
from __future__ import annotations
import hashlib, itertools, json, os, subprocess, sys

ROOT = os.path.dirname(os.path.dirname(os.path.abspath(__file__)))
PY = "/venv/bin/python"


def _spec_file(sidecars):
    from pyvc.run import load_registry
    from pyvc import export
    key = hashlib.sha1(json.dumps(sidecars or []).encode()).hexdigest()[:8]
    path = os.path.join(ROOT, "replays", f"spec_{key}.json")
    os.makedirs(os.path.dirname(path), exist_ok=True)
    export.write(load_registry(sidecars), path)
    return path


def _run(module, req, repo, timeout=90):
    rp = os.path.join(ROOT, "replays", f"req_{os.getpid()}.json")
    json.dump(req, open(rp, "w"), default=str)
    env = dict(os.environ)
    env["PYTHONPATH"] = os.path.join(repo, "src") + ":" + ROOT
    try:
        p = subprocess.run(["timeout", str(timeout), PY, "-m", module, rp], cwd=ROOT, env=env, capture_output=True, text=True, timeout=timeout + 10)
    except subprocess.TimeoutExpired:
        return dict(reproduced=False, error="replay timed out")
    finally:
        try:
            os.unlink(rp)
        except OSError:
            pass
    for line in p.stdout.splitlines():
        if line.startswith("REPLAY-RESULT "):
            return json.loads(line[len("REPLAY-RESULT "):])
    return dict(reproduced=False, error="no result", stdout=p.stdout[-500:], stderr=p.stderr[-800:])


def target_of(record):
    """which run-time contract check corresponds to the failed obligation"""
    import re
    ob = record.get("obligation") or ""
    tail = ob.split("/", 1)[1] if "/" in ob else ob
    m = re.match(r"ensures\[(\d+)\]", tail)
    if m:
        return dict(kind="ensures", index=int(m.group(1)))
    m = re.match(r"raises\[(\w+)\]\[(\d+)\]", tail)
    if m:
        return dict(kind="raises", exc=m.group(1), index=int(m.group(2)))
    m = re.match(r"call:([\w.]+)/requires\[(\d+)\]", tail)
    if m:
        return dict(kind="requires@callsite", callee=m.group(1), index=int(m.group(2)))
    m = re.match(r"noraise\[(\w+)\]", tail)
    if m:
        return dict(kind="noraise", exc=m.group(1))
    if tail.startswith("loop"):
        return dict(kind="invariant")
    return dict(kind="other")


def replay_candidates(record, repo):
    fn = record.get("function") or ""
    if not fn.startswith("pyrtma.manager:") or fn.endswith(".run"):
        return dict(reproduced=False, reason="no replay harness for this function family")
    spec = _spec_file(record.get("sidecars"))
    tried = []
    for cand in (record.get("candidates") or [])[:3]:
        w = cand.get("witness")
        if not w:
            continue
        socks = [oid for oid, d in w["objects"].items() if d["class"] == "Socket"]
        variants = [[]] + [[s] for s in socks[:5]] + [list(p) for p in itertools.combinations(socks[:4], 2)]
        for fails in variants[:12]:
            res = _run("replay.manager_replay", dict(spec=spec, function=fn, witness=w, fail_sets=[fails], target=target_of(record)), repo)
            v = (res.get("variants") or [{}])[0]
            tried.append(dict(fail=fails, reproduced=res.get("reproduced"), precondition_ok=v.get("precondition_ok"), exception=v.get("exception"),
                              violations=v.get("violations"), all_violations=v.get("all_violations"), error=res.get("error"), evaluated=v.get("evaluated"), not_evaluable=v.get("not_evaluable_sample"), sent=v.get("sent"), header=v.get("header"), stderr=(res.get("stderr") or "")[-300:]))
            if res.get("reproduced"):
                return dict(reproduced=True, input=dict(witness=w, failing_sockets=fails), observed=v, tried=len(tried))
    return dict(reproduced=False, tried=tried[:8])


def replay_file(path, repo):
    rec = json.load(open(path))
    print(f"obligation: {rec.get('obligation')}\ngoal: {rec.get('goal')}\nstatus: {rec.get('status')} {rec.get('solver_reason') or ''}")
    ob = rec.get("obligation") or ""
    if not rec.get("function"):
        # obligations of the property-specific deciders: re-run their replay on this tree
        sys.path.insert(0, ROOT)
        res = dict(open={ob: dict(text="", kind="")})
        try:
            if ob.startswith("C13/"):
                from pyvc import hashcheck
                hashcheck.replay_open(res, repo)
            elif ob.startswith("C17/"):
                from pyvc import rgcheck
                rgcheck.replay(res, repo)
            elif ob.startswith("C12/parse_file"):
                from pyvc import importcheck
                importcheck._replay(res, repo)
            elif ob.startswith("C04/"):
                from pyvc import tables
                full = tables.check(repo=repo)
                res = dict(open={k: v for k, v in full["open"].items() if k == ob}) if ob in full["open"] else dict(open={ob: dict(text="holds on this tree")})
            elif ob.startswith("C11/add_fields"):
                from pyvc import importcheck
                full = importcheck.check_layout_pass(repo=repo)
                res = dict(open={k: v for k, v in full["open"].items() if k == ob}) if ob in full["open"] else dict(open={ob: dict(text="holds on this tree")})
            elif ob.startswith("C12/handle_reserve"):
                from pyvc import importcheck
                full = importcheck.check_reserve(repo=repo)
                res = dict(open={k: v for k, v in full["open"].items() if k == ob}) if ob in full["open"] else dict(open={ob: dict(text="holds on this tree")})
            elif ob.startswith("C16/"):
                from pyvc import detcheck
                full = detcheck.check(repo=repo)
                res = dict(open={k: v for k, v in full["open"].items() if k == ob})
                if not res["open"]:
                    res = dict(open={ob: dict(text="holds on this tree")})
        except Exception as ex:
            print("replay error:", repr(ex))
        info = res["open"].get(ob, {})
        print(info.get("text", "")[-1500:])
        if info.get("reproduced"):
            print(f"VIOLATION property={rec.get('property')} replay={path}")
            return 1
        print("not reproduced on this tree")
        return 0
    r = replay_candidates(rec, repo)
    print(json.dumps(r, indent=1, default=str)[:4000])
    if r.get("reproduced"):
        print(f"VIOLATION property={rec.get('property')} replay={path}")
        return 1
    print("not reproduced on this tree")
    return 0
