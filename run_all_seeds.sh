#!/bin/bash
cd /verif; mkdir -p replays/seedruns
for d in ${SEEDS:-seeded/*-agent*}; do
  ./run_seed.sh $d quick > replays/seedruns/$(basename $d).log 2>&1
  echo "$(basename $d) $(tail -1 replays/seedruns/$(basename $d).log)" >> replays/seedruns/summary.txt
done
echo SEEDSDONE >> replays/seedruns/summary.txt
