#!/bin/bash
# usage: run_seed.sh <seed dir> [tier]   -- apply the seed's patch to a scratch copy of /repo's working tree,
# run the property's check against it (--repo), store the outcome in <seed dir>/result.json, remove the copy.
d=$(realpath "${1%/}"); tier="${2:-quick}"
prop=$(python3 -c "import json,sys; print(json.load(open('$d/meta.json'))['property'])")
w=$(mktemp -d /tmp/pyvc_seed.XXXXXX)
git -C /repo worktree add --detach "$w/wt" HEAD -q || exit 9
( cd "$w/wt" && git apply "$d/patch.diff" ) || { echo "APPLY FAILED"; git -C /repo worktree remove --force "$w/wt"; rm -rf "$w"; exit 9; }
cd /verif
t0=$(date +%s)
./check "$prop" "$tier" --no-evidence --repo "$w/wt" > "$w/out.log" 2>&1
rc=$?
t1=$(date +%s)
grep -E "^(VIOLATION|UNDECIDED|CRASH|KNOWN-FINDING|$prop )" "$w/out.log" | head -12
python3 - "$d" "$prop" "$tier" "$rc" "$((t1-t0))" "$w/out.log" <<'PY'
import json, sys, re
d, prop, tier, rc, secs, log = sys.argv[1:7]
lines = open(log).read().splitlines()
viol = [l for l in lines if l.startswith("VIOLATION")]
obl = []
for v in viol:
    m = re.search(r"replay=(\S+)", v)
    try:
        r = json.load(open(m.group(1)))
        obl.append(dict(obligation=r.get("obligation"), replayed=bool((r.get("replayed") or {}).get("reproduced"))))
    except Exception:
        pass
json.dump(dict(property=prop, tier=tier, exit=int(rc), seconds=int(secs), detected=int(rc) == 1, violations=obl[:8],
               summary=next((l for l in lines if l.startswith(prop + " ")), "")), open(d + "/result.json", "w"), indent=1)
PY
echo "exit=$rc"
git -C /repo worktree remove --force "$w/wt"; rm -rf "$w"
