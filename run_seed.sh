#!/bin/sh
# usage: run_seed.sh <patch> <PROP> [more props]   -- apply to /repo, run checks, revert
patch="$1"; shift
git -C /repo apply "$patch" || { echo "APPLY FAILED"; exit 9; }
for p in "$@"; do
  ./check "$p" quick --no-evidence 2>&1 | grep -v "^  symexec\|^  attempt\|^  solved" | tail -12
  echo "exit($p)=$?"
done
git -C /repo checkout -- .
git -C /repo status --short | head -3
