import sys, os
sys.path.insert(0,'/verif')
from pyvc.driver import run_functions
from contracts.logger_contracts import LOGGER_C17
keys=[k for k in LOGGER_C17 if (len(sys.argv)<2 or sys.argv[1] in k)]
res = run_functions(keys, sidecars=["contracts.logger_contracts"], do_refute=False, jobs=8, repo=os.environ.get("PYVC_REPO","/repo"))
for r in res:
    obs=r['obligations']; d=sum(o['status']=='discharged' for o in obs)
    print(r['function'], d, '/', len(obs), (r['unsupported'] or r['error'] or '')[:400], 'VAC' if r.get('vacuous') else '')
    seen=set()
    for o in obs:
        if o['status'] not in ('discharged','skipped') and o['name'] not in seen:
            seen.add(o['name']); print('    ', o['status'], o['name'], '|', o['text'], '|', o.get('conjunct') or o.get('detail') or '', o.get('path'))
