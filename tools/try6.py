import sys, time, json
sys.path.insert(0, '/verif')
from pyvc.driver import run_functions
from contracts import targets
keys = []
for nm in sys.argv[1].split(','):
    for k in getattr(targets, nm):
        if k not in keys: keys.append(k)
sc = targets.CLIENT_SIDECARS if 'CLIENT' in sys.argv[1] else None
t=time.time()
res = run_functions(keys, sidecars=sc, log=None, do_refute=False, jobs=int(__import__('os').environ.get('JOBS','16')))
tot=dis=0
for r in res:
    obs=r['obligations']; tot+=len(obs); d=sum(o['status']=='discharged' for o in obs); dis+=d
    print(r['function'], d, '/', len(obs), r['unsupported'] or r['error'] or '', 'VAC' if r.get('vacuous') else '')
    seen=set()
    for o in obs:
        if o['status'] not in ('discharged','skipped') and o['name'] not in seen:
            seen.add(o['name']); print('    ', o['status'], o['name'], '|', o['text'][:100])
print('TOTAL', dis, '/', tot, round(time.time()-t,1),'s')
