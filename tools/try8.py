import sys, time
sys.path.insert(0, '/verif')
from pyvc.driver import run_functions
import importlib
mod = importlib.import_module(sys.argv[1]); keys = getattr(mod, sys.argv[2])
if len(sys.argv) > 3: keys=[k for k in keys if sys.argv[3] in k]
res = run_functions(keys, sidecars=[sys.argv[1]], do_refute=False, jobs=8)
tot=dis=0
for r in res:
    obs=r['obligations']; tot+=len(obs); d=sum(o['status']=='discharged' for o in obs); dis+=d
    print(r['function'].split(':')[1], d, '/', len(obs), (r['unsupported'] or r['error'] or '')[:300], 'VAC' if r.get('vacuous') else '', r['stats'].get('raise_paths'))
    seen=set()
    for o in obs:
        if o['status'] not in ('discharged','skipped') and o['name'] not in seen:
            seen.add(o['name']); print('    ', o['status'], o['name'].split('/',1)[1], '|', o['text'][:100])
print('TOTAL', dis, '/', tot)
