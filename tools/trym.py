import sys, os
sys.path.insert(0,'/verif')
from pyvc.driver import run_functions
keys=["pyrtma.manager:"+k for k in sys.argv[1].split(',')]
res = run_functions(keys, sidecars=None, do_refute=False, jobs=8, repo=os.environ.get("PYVC_REPO","/repo"))
for r in res:
    obs=r['obligations']; d=sum(o['status']=='discharged' for o in obs)
    print(r['function'], d, '/', len(obs), (r['unsupported'] or r['error'] or '')[:3000], 'VAC' if r.get('vacuous') else '')
    seen=set()
    for o in obs:
        if o['status'] not in ('discharged','skipped') and o['name'] not in seen:
            seen.add(o['name']); print('    ', o['status'], o['name'], '|', o['text'][:200], '|', o.get('conjunct') or o.get('detail') or '', o.get('path'))
