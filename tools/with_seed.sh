#!/bin/bash
# usage: tools/with_seed.sh <seed dir> <command...>   -- run a command with PYVC_REPO pointing at a scratch worktree that has the seed's patch applied
d=$(realpath "${1%/}"); shift
w=$(mktemp -d /tmp/pyvc_ws.XXXXXX)
git -C /repo worktree add --detach "$w/wt" HEAD -q || exit 9
( cd "$w/wt" && git apply "$d/patch.diff" ) || echo "APPLY FAILED"
PYVC_REPO="$w/wt" "$@"
git -C /repo worktree remove --force "$w/wt"; rm -rf "$w"
