"""fill the <!--TABLE--> and <!--SEEDS--> blocks of DESIGN.md section 11 from evidence/*.json and seeded/*/result.json"""
import json, os, re, glob
ROOT = os.path.dirname(os.path.abspath(__file__))
props = [json.loads(l) for l in open(os.path.join(ROOT, "properties.jsonl")) if l.strip()]
man = json.load(open(os.path.join(ROOT, "MANIFEST.json")))
claimed = {c["property_id"]: c for c in man["checks"]}
na = {n["property_id"]: n["reason"] for n in man.get("not_applicable", [])}
rows = ["| id | status | level | functions under contract | obligations (quick) | solver s | wall s |", "|---|---|---|---|---|---|---|"]
for p in props:
    pid = p["id"]
    if pid in claimed:
        evp = os.path.join(ROOT, "evidence", pid + ".json")
        ev = json.load(open(evp)) if os.path.exists(evp) else {}
        cov = ev.get("coverage", {})
        nf = len(cov.get("functions_under_contract", []))
        rows.append(f"| {pid} | claimed | {claimed[pid]['level_claimed']['category']} | {nf or '-'} | {cov.get('discharged','?')}/{cov.get('obligations','?')} ({ev.get('tier','?')}) | {cov.get('solver_seconds','?')} | {ev.get('wall_s','?')} |")
    else:
        rows.append(f"| {pid} | not applicable | - | - | - | - | - |")
table = "\n".join(rows)
srows = ["| seed | property | change (agent's summary, shortened) | check result | failed obligations (first) | replayed |", "|---|---|---|---|---|---|"]
for d in sorted(glob.glob(os.path.join(ROOT, "seeded", "*"))):
    mp, rp = os.path.join(d, "meta.json"), os.path.join(d, "result.json")
    if not os.path.exists(mp):
        continue
    m = json.load(open(mp))
    r = json.load(open(rp)) if os.path.exists(rp) else None
    summ = re.sub(r"\s+", " ", m["summary"])[:150].replace("|", "/")
    if r is None:
        res, obl, rep = "not run", "", ""
    else:
        res = {0: "**missed** (exit 0)", 1: "detected (exit 1)", 2: "undecided (exit 2)", 3: "checker crash (exit 3)"}.get(r["exit"], str(r["exit"]))
        obl = "; ".join((v.get("obligation") or "")[:70] for v in r.get("violations", [])[:2])
        rep = "yes" if any(v.get("replayed") for v in r.get("violations", [])) else ("no" if r["exit"] == 1 else "")
    srows.append(f"| {os.path.basename(d)} | {m['property']} | {summ} | {res} | {obl} | {rep} |")
stable = "\n".join(srows)
path = os.path.join(ROOT, "DESIGN.md")
s = open(path).read()
s = re.sub(r"<!--TABLE-->.*?<!--/TABLE-->|<!--TABLE-->", "<!--TABLE-->\n" + table + "\n<!--/TABLE-->", s, count=1, flags=re.S)
s = re.sub(r"<!--SEEDS-->.*?<!--/SEEDS-->|<!--SEEDS-->", "<!--SEEDS-->\n" + stable + "\n<!--/SEEDS-->", s, count=1, flags=re.S)
open(path, "w").write(s)
print("ok")
