"""regenerate MANIFEST.json from contracts/plan.py (claimed) and properties.jsonl (the rest -> not_applicable)"""
import json, sys
sys.path.insert(0, '/verif')
from contracts import plan
props=[json.loads(l) for l in open('/verif/properties.jsonl') if l.strip()]
NA = getattr(plan, "NOT_APPLICABLE", {})
checks=[]
for p in props:
    pid=p['id']
    if pid not in plan.PLAN: continue
    pl=plan.PLAN[pid]
    checks.append({
      "property_id": pid,
      "quick_cmd": f"./check {pid} quick",
      "thorough_cmd": f"./check {pid} thorough",
      "evidence_file": f"evidence/{pid}.json",
      "replay_cmd_template": f"./check {pid} --replay {{path}}",
      "engine": "pyvc",
      "level_claimed": {"category": pl.get("level","proof"),
                        "text": pl.get("level_text") or ("Every obligation generated from the real functions' source (re-read from /repo on each run) against their sidecar contracts is discharged by z3/cvc5 for all inputs, iterations and environment choices; modular (callers see contracts only). " + pl.get("explanation","")),
                        "design_ref": pl.get("design_ref", f"DESIGN.md 5 ({pid})")},
      "level_note": "Trusted: the pyvc encoder (DESIGN 2.2), the assumed contracts of sockets/select/logging/ctypes listed in the evidence (DESIGN 3, 7), z3/cvc5. Partial correctness; liveness is out of scope.",
      "technique": pl.get("technique", "contract-based deductive verification: sidecar contracts on the real functions, VCs generated from the AST by pyvc, discharged by z3 (cvc5 second opinion)"),
    })
m={"version":1,
 "setup_cmd":"true",
 "hooks":{"guard":"PYRTMA_VERIF","enable":"no hooks: contracts are sidecars under /verif/contracts; nothing in /repo is instrumented",
          "baseline_off_cmd":"cd /repo && /venv/bin/python -m pytest -ra -q -p no:cacheprovider --timeout=900 --continue-on-collection-errors",
          "source_commits":[],"add_only":True},
 "engines":[{"name":"pyvc","path":"pyvc/","serves_properties":sorted(plan.PLAN),"kind_free_text":"symbolic executor / VC generator over the python AST of /repo with sidecar contracts (requires, ensures, raises, modifies, loop invariants, ghost state), z3 + cvc5 back ends, finite-scope counter-model search and replay on the real code"}],
 "checks":checks,
 "notes":"exit codes: 0 held, 1 violation (VIOLATION line), 2 undecided, 3 checker crash. See DESIGN.md.",
 "not_applicable":[{"property_id":p["id"],"reason":NA.get(p["id"],"check not built yet (framework under construction) - not a statement about the technique")} for p in props if p["id"] not in plan.PLAN]}
json.dump(m,open('/verif/MANIFEST.json','w'),indent=1)
print(len(checks),'checks')
