"""fill the <!--ROUND5--> block of DESIGN.md 11.10 from seeded/*/meta.json (round 5) and result.json, plus the first-run outcomes recorded by hand below"""
import json, glob, os, re
ROOT = os.path.dirname(os.path.abspath(__file__))
FIRST = {   # outcome of the FIRST run of the property's quick check on the seed, before any change to the machinery, and what was changed afterwards
    "C01-agent4": ("undecided (exit 2)", "a timeout on `process_message` was classed as solver noise because the function's own text was unchanged - the changed body (`resume_subscription`) is inlined into it; source identity now covers inlined bodies"),
    "C02-agent5": ("checker hung", "counter-model search exhausted memory (64 GB, OOM kill) and the pool waited for ever; refutation now runs in isolated, memory-limited children - then reported at once, no contract changed"),
    "C03-agent4": ("checker crash (exit 3)", "invalid quantifier pattern for a set comprehension over a lambda-defined list; falls back to no pattern - then reported, no contract changed"),
    "C04-agent4": ("**missed** (exit 0)", "`MessageMeta.__new__` was not under any contract; descriptor-to-field dataflow contract added, replay gained a field named `_rsvd`"),
    "C05-agent4": ("**missed** (exit 0)", "`connect_module`'s contract (counter monotonicity, I6) refutes the change, but `connect_module` was only in C05's thorough list; added to the quick list"),
    "C06-agent4": ("detected (exit 1)", ""),
    "C07-agent4": ("**missed** (exit 0)", "`run()`'s contract refutes the change (stale module handed to `read_message`), but `run` was only in C07's thorough list; added to the quick lists of C07 and C01"),
    "C08-agent5": ("**missed** (exit 0)", "`_read_message` stated the decode errors only as 'raised ⇒ condition'; the converse ('returned ⇒ size and version agree') added as two postconditions"),
    "C09-agent5": ("**missed** (exit 0)", "the sidecar modelled `_VALIDATION_ENABLED` as a context variable whatever the source bound it to; applicability obligation + two-thread replay added"),
    "C11-agent5": ("detected (exit 1)", ""),
    "C12-agent5": ("undecided (exit 2)", "`parse_file`'s frame on `current_file` was in no contract; abstract-interpretation contract + replay added"),
    "C13-agent4": ("**missed** (exit 0)", "emit-site obligations looked at the printed value only; `#define` name/value separation obligation + long-name replay added (and found defect 16dbced on the unchanged tree)"),
    "C14-agent4": ("undecided (exit 2)", "new helper `drop_module` had no contract; same-class helpers are now inlined - still **undecided**: the helper reads `self.header`, a view of the receive buffer, and `forward_message`'s precondition does not carry `buffers_ok`; adding it means re-verifying every manager property and was not done"),
    "C16-agent4": ("**missed** (exit 0)", "effect analysis did not look at state shared between compilations in one process; shared-state obligation + two-parser replay added"),
    "C17-agent5": ("detected (exit 1)", ""),
    "C18-agent4": ("undecided (exit 2)", "the change reads the raw ctypes field `_timing` behind the descriptor and calls `ctypes.memset` with an element count for a byte count; neither is in the engine's ctypes model - left **undecided** (a byte-level model of `memset` over typed arrays was not built)"),
    "C19-agent4": ("detected (exit 1)", ""),
}
rows = ["| seed | change (agent's summary, shortened) | needs | first run | final | failed obligations (first) | replayed | what was changed after the first run |", "|---|---|---|---|---|---|---|---|"]
for d in sorted(glob.glob(os.path.join(ROOT, "seeded", "*"))):
    mp, rp = os.path.join(d, "meta.json"), os.path.join(d, "result.json")
    m = json.load(open(mp))
    if m.get("round") != 5:
        continue
    name = os.path.basename(d)
    r = json.load(open(rp)) if os.path.exists(rp) else None
    fin = "not run" if r is None else {0: "**missed** (exit 0)", 1: "detected (exit 1)", 2: "undecided (exit 2)", 3: "checker crash (exit 3)"}.get(r["exit"], str(r["exit"]))
    obl = "" if r is None else "; ".join((v.get("obligation") or "")[:80] for v in r.get("violations", [])[:2])
    rep = "" if r is None or r["exit"] != 1 else ("yes" if any(v.get("replayed") for v in r.get("violations", [])) else "no")
    first, why = FIRST.get(name, ("", ""))
    cl = lambda t, n: re.sub(r"\s+", " ", t)[:n].replace("|", "/")
    rows.append(f"| {name} | {cl(m['summary'], 170)} | {cl(m.get('needs', ''), 120)} | {first or fin} | {fin} | {obl} | {rep} | {why} |")
path = os.path.join(ROOT, "DESIGN.md")
s = open(path).read()
s = re.sub(r"<!--ROUND5-->.*?<!--/ROUND5-->|<!--ROUND5-->", "<!--ROUND5-->\n" + "\n".join(rows) + "\n<!--/ROUND5-->", s, count=1, flags=re.S)
open(path, "w").write(s)
print(len(rows) - 2, "rows")
