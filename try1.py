import sys, time, json
sys.path.insert(0, '/verif')
from pyvc.driver import run_functions
keys=[k for k in sys.argv[1:] if not k.startswith('-')]
sc=None
for a in sys.argv:
    if a.startswith('--sidecars='): sc=a.split('=',1)[1].split(',')
t=time.time()
for r in run_functions(keys, sidecars=sc, log=print, do_refute='--norefute' not in sys.argv, jobs=int(__import__('os').environ.get('JOBS','16'))):
    key=r['function']
    if r['error'] or r['unsupported']: print(key, 'ERROR', r['error'], r['unsupported']); continue
    obs = r['obligations']
    print(key, len(obs), 'obligations', r['stats'], 'VACUOUS' if r.get('vacuous') else 'nonvacuous', r.get('must_fail_checked'))
    seen=set()
    for o in obs:
        if o['status'] not in ('discharged','skipped') and o['name'] not in seen:
            seen.add(o['name'])
            print('  ', o['status'], o['name'], '|', o['text'][:140], '|', o['reason'], o['seconds'], 'cands', len(o.get('candidates', [])), o.get('path', [])[-4:])
    print('  discharged', sum(o['status']=='discharged' for o in obs), '/', len(obs))
print('total', round(time.time()-t,1))
