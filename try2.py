import sys, time
sys.path.insert(0, '/verif')
import z3
from pyvc.source import Source
from pyvc.verify import Engine
from pyvc.core import Sorts
from pyvc.run import load_registry
src = Source()
key, pat = sys.argv[1], sys.argv[2]
eng = Engine(src, load_registry(), Sorts())
obs = eng.verify(key)
print(len(obs), eng.stats)
for ob in obs:
    if pat in ob.name and ob.status is None:
        for cfg in [dict(), {"smt.mbqi": False}, {"smt.mbqi": False, "smt.qi.eager_threshold": 100.0}]:
            s = z3.Solver(); s.set("timeout", 10000)
            for k,v in cfg.items(): s.set(k, v)
            for h in ob.hyps: s.add(h)
            s.add(z3.Not(ob.goal))
            t=time.time(); r=s.check(); print(ob.name, cfg, r, round(time.time()-t,2), s.reason_unknown() if r==z3.unknown else '')
        print(len(ob.hyps),'hyps'); print('GOAL', ob.goal)
        if '--dump' in sys.argv: open('/tmp/ob.smt2','w').write(s.to_smt2())
        if '--all' not in sys.argv: break
if '--slice' in sys.argv:
    ob=[o for o in obs if pat in o.name][0]
    H=ob.hyps
    for start in [0, 50, 100, 120, 140, 160, 180]:
        s = z3.Solver(); s.set("timeout", 5000)
        for h in H[start:]: s.add(h)
        s.add(z3.Not(ob.goal)); t=time.time(); r=s.check(); print('from', start, r, round(time.time()-t,2))
    # drop quantified hyps one group at a time
    qs=[i for i,h in enumerate(H) if z3.is_quantifier(h)]
    print(len(qs),'quantified hyps')
if '--text' in sys.argv:
    from pyvc import solve
    ob=[o for o in obs if pat in o.name and o.status is None][0]
    text = solve.to_smt2(ob)
    for i in range(3):
        t=time.time(); print('pool_check', solve._pool_check((text, 10000, i, False))[:3], round(time.time()-t,2))
    s=z3.Solver(); s.set('timeout',10000); s.from_string(text); t=time.time(); print('from_string', s.check(), round(time.time()-t,2))
    s=z3.SolverFor('ALL') if False else z3.Solver(); s.set('timeout',10000)
    for a in z3.parse_smt2_string(text): s.add(a)
    t=time.time(); print('parse+add', s.check(), round(time.time()-t,2))
