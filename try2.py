import sys, time
sys.path.insert(0, '/verif')
import z3
from pyvc.source import Source
from pyvc.verify import Engine
from pyvc.core import Sorts
from pyvc.run import load_registry
src = Source()
key, pat, sc = sys.argv[1], sys.argv[2], sys.argv[3].split(',')
eng = Engine(src, load_registry(sc), Sorts())
obs = eng.verify(key)
n=0
for ob in obs:
    if ob.name.endswith(pat) and ob.status is None:
        n+=1
        s = z3.Solver(); s.set("timeout", 15000)
        for h in ob.hyps: s.add(h)
        s.add(z3.Not(ob.goal))
        t=time.time(); r=s.check(); print(ob.name.split('/',1)[1], [p for p in ob.path][-5:], r, round(time.time()-t,2), len(ob.hyps),'hyps')
        if '--goal' in sys.argv: print('GOAL', str(ob.goal)[:1500])
        if '--min' in sys.argv and r != z3.unsat:
            # which quantified hyps are needed? try dropping ghost-map invariants
            pass
if '--cases' in sys.argv:
    ob=[o for o in obs if o.name.endswith(pat) and o.status is None][-1]
    g=ob.goal
    assert z3.is_quantifier(g)
    body=g.body(); 
    nvar=[v for k,v in eng.entry_state.frames[0].items()]  # unused
    # find the 'n' local: guess name n!21-like from goal text
    import re
    names=set(re.findall(r'n!\d+', str(g)))
    print('n candidates', names)
    for nm in names:
        nz=z3.Int(nm)
        for label, jv in (('j=n', nz), ('j=n+1', nz+1), ('j=n-1', nz-1), ('j=0',z3.IntVal(0))):
            inst=z3.substitute_vars(body, jv)
            s=z3.Solver(); s.set('timeout',8000)
            for h in ob.hyps: s.add(h)
            s.add(z3.Not(inst)); t=time.time(); print(nm, label, s.check(), round(time.time()-t,2))
if '--show' in sys.argv:
    ob=[o for o in obs if o.name.endswith(pat) and o.status is None][-1]
    import re
    nm=sorted(set(re.findall(r'n!\d+', str(ob.goal))))[0]
    inst=z3.simplify(z3.substitute_vars(ob.goal.body(), z3.Int(nm)+1))
    print(str(inst)[:3000])
    for h in ob.hyps[-28:]:
        print('H:', str(h)[:300].replace('\n',' '))
if '--cfg' in sys.argv:
    cands=[o for o in obs if o.name.endswith(pat) and o.status is None]
    ob=cands[2]
    for cfg in [{"smt.arith.solver":2},{"smt.arith.solver":6},{"smt.mbqi":False},{"smt.case_split":3},{"smt.qi.eager_threshold":50.0},{"smt.relevancy":0}]:
        s = z3.Solver(); s.set("timeout", 20000)
        for k,v in cfg.items(): s.set(k,v)
        for h in ob.hyps: s.add(h)
        s.add(z3.Not(ob.goal)); t=time.time(); print(cfg, s.check(), round(time.time()-t,2))
    t=time.time(); tac=z3.Then('simplify','propagate-values','solve-eqs','smt'); sv=tac.solver(); sv.set("timeout",20000)
    for h in ob.hyps: sv.add(h)
    sv.add(z3.Not(ob.goal)); print('tactic', sv.check(), round(time.time()-t,2))
if '--portfolio' in sys.argv:
    cands=[o for o in obs if o.name.endswith(pat) and o.status is None]
    for idx, ob in enumerate(cands):
        res=[]
        for cfg in [{}, {"smt.arith.solver":6}, {"smt.arith.solver":6,"random_seed":7}, {"smt.arith.solver":2,"random_seed":3}, {"smt.arith.solver":6, "smt.arith.nl": False}]:
            s = z3.Solver(); s.set("timeout", 20000)
            for k,v in cfg.items(): s.set(k,v)
            for h in ob.hyps: s.add(h)
            s.add(z3.Not(ob.goal)); t=time.time(); r=s.check(); res.append((str(r), round(time.time()-t,1)))
        print(idx, [p for p in ob.path][-3:], res)
