import sys, time
sys.path.insert(0, '/verif')
import z3
from pyvc.source import Source
from pyvc.spec import Registry
from pyvc.verify import Engine
from pyvc.core import Sorts
from pyvc.refute import find_model
import contracts.manager_model as mm, contracts.manager_contracts as mc
R = Registry(); mm.install(R); mc.install(R)
src = Source()
key, pat, k = sys.argv[1], sys.argv[2], int(sys.argv[3])
S = Sorts(scope=k)
eng = Engine(src, R, S, opts={"nosplit": True})
obs = eng.verify(key)
for ob in obs:
    if pat in ob.name and ob.status is None and not __import__("z3").is_true(ob.goal):
        t=time.time()
        r, m, info = find_model(ob.hyps, ob.goal, S.ref_consts)
        print(ob.name, r, info, round(time.time()-t,2))
        if r=='sat':
            for d in m.decls():
                if d.name().startswith(('p_','H_Module.subs','H_MessageManager.subscriptions','H_Module.conn','H_MessageManager.modules')) and '!' not in d.name(): print(d.name(), m[d])
if '--hyps' in sys.argv:
    for ob in obs:
        if pat in ob.name:
            print('hyps only:', find_model(ob.hyps, z3.BoolVal(False), S.ref_consts)[0])
            # bisect
            for n in range(1, len(ob.hyps)+1):
                r = find_model(ob.hyps[:n], z3.BoolVal(False), S.ref_consts)[0]
                if r == 'unsat':
                    print('first unsat prefix', n, ob.hyps[n-1]); break
            break
