import sys, time
sys.path.insert(0, '/verif')
import z3
from pyvc.source import Source
from pyvc.verify import Engine
from pyvc.core import Sorts
from pyvc.refute import find_model, validate_model
from pyvc.run import load_registry
src = Source()
key, pat, k = sys.argv[1], sys.argv[2], int(sys.argv[3])
S = Sorts(scope=k)
eng = Engine(src, load_registry(), S, opts={"nosplit": True})
obs = eng.verify(key)
for ob in obs:
    if ob.base.endswith(pat) and not z3.is_true(ob.goal):
        r, m, info = find_model(ob.hyps, ob.goal, S.ref_consts)
        print(ob.name, [p for p in ob.path][-6:], r, {a:b for a,b in info.items() if a!='pool'})
        if r == 'sat': print('   validate:', validate_model(m, ob.hyps, ob.goal))
        r2 = find_model(ob.hyps, z3.BoolVal(False), S.ref_consts)[0]
        print('   hyps alone:', r2)
        if r2 == 'unsat' and '--bisect' in sys.argv:
            for n in range(1, len(ob.hyps)+1):
                if find_model(ob.hyps[:n], z3.BoolVal(False), S.ref_consts)[0] == 'unsat':
                    print('   first unsat prefix', n, str(ob.hyps[n-1])[:600]); break
