import sys, time
sys.path.insert(0, '/verif')
import z3
from pyvc.source import Source
from pyvc.verify import Engine
from pyvc.core import Sorts
from pyvc.run import load_registry
src = Source()
key = sys.argv[1]; pats = sys.argv[2:]
eng = Engine(src, load_registry(), Sorts())
obs = eng.verify(key)
seen=set()
for ob in obs:
    for pat in pats:
        if ob.name.endswith(pat) and ob.name not in seen:
            seen.add(ob.name)
            print(ob.name, '\n   GOAL:', str(ob.goal)[:int(__import__("os").environ.get("GL","700"))].replace('\n',' '))
