import sys, time, json
sys.path.insert(0, '/verif')
from pyvc.driver import run_functions
from contracts.targets import MANAGER_ALL
t=time.time()
res = run_functions(MANAGER_ALL, log=print, do_refute=False)
tot=dis=0
for r in res:
    obs=r['obligations']; tot+=len(obs); d=sum(o['status']=='discharged' for o in obs); dis+=d
    print(r['function'], d, '/', len(obs), r['unsupported'] or r['error'] or '', 'VAC' if r.get('vacuous') else '')
    seen=set()
    for o in obs:
        if o['status'] not in ('discharged','skipped') and o['name'] not in seen:
            seen.add(o['name']); print('    ', o['status'], o['name'], '|', o['text'][:100])
print('TOTAL', dis, '/', tot, round(time.time()-t,1),'s')
