import sys, time, json
sys.path.insert(0, '/verif')
import z3
from pyvc.source import Source
from pyvc.verify import Engine
from pyvc.core import Sorts
from pyvc.run import load_registry, extract_witness
from pyvc.refute import find_model
src = Source()
key, pat, sc, k = sys.argv[1], sys.argv[2], sys.argv[3].split(','), int(sys.argv[4])
S = Sorts(scope=k)
eng = Engine(src, load_registry(sc), S, opts={"nosplit": True})
obs = eng.verify(key)
for ob in obs:
    if pat in ob.name and not z3.is_true(ob.goal):
        r, m, info = find_model(ob.hyps, ob.goal, S.ref_consts, timeout_ms=20000)
        print(ob.name, r, {a:b for a,b in info.items() if a!='pool'} if isinstance(info,dict) else info)
        if r == 'sat':
            w = extract_witness(eng, eng.entry_state, m, info.get('pool', []))
            print(json.dumps(w['params']))
            for o, d in w['objects'].items():
                if d['class'] in ('Field','SDF','Parser'): print(o, d['class'], d['fields'])
            # loop-local values
            for d in m.decls():
                if d.name().startswith(('pad_len','ptr','n!','npad')): print(d.name(), m[d])
            break
